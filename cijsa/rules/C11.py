"""C11 — every interpolation method returns a consistent (omega, gamma, V dgamma/dV) triple."""
from __future__ import annotations

import ast
import json

import sympy as sp

from .. import units as U
from ..facts import physics_seeds, interpolate_modes_roles, CALC, FREQ, GAMMA, VDR, LONG
from ..interpmodel import Registry, intrinsics, EVAL, FLIP, InterpV
from ..libsum import ppoly_default_extrapolate
from ..model import dotted_name, src, body_wo_doc
from ..report import AnalysisError, REPO, Where
from ..sym import Ev, Tup, Obj, RaisedV, as_sym, is_sym, Indexed, is_indexed, Opaque

MG = "cij.core.mode_gamma"
P = dict(positive=True)
MV, MF, VA = sp.symbols("MV MF VA", **P)
ORDER = sp.Symbol("ORDER", positive=True, integer=True)
HELPERS = {"spline": "interpolate_mode_spline", "lagrange": "interpolate_mode_lagrange", "krogh": "interpolate_mode_krogh",
           "pchip": "interpolate_mode_ppoly", "akima": "interpolate_mode_ppoly", "hermite": "interpolate_mode_ppoly",
           "lsq_poly": "interpolate_mode_lsq_poly"}

LEVEL = "other"
TECHNIQUE = "static analysis: folding of each interpolation helper to (exp f(x), -f'(x), -f''(x)) over interpolant atoms; decision tables; library summaries read from installed scipy"
EXPLANATION = (
    "Static analysis decides: each of the seven dispatchable methods, folded with scipy/numpy interpolant constructs as "
    "atoms, returns (exp(f(x)), -f^(1)(x), -f^(2)(x)) for ONE interpolant f and ONE abscissa x = log(v_array); the nodes "
    "are (log V, log omega) under the same reordering/subsampling; interpolate_modes writes the three outputs at the same "
    "(q, m) it reads, skips exactly the three acoustic Gamma modes, starts from zeros and returns (omega, gamma, V dgamma/dV); "
    "the schema's interpolator enum is covered by the dispatch; the consumer unpacks in return order; plot_modes draws "
    "omega/gamma/V dgamma/dV for n = 0/1/2; every reachable interpolator class is constructible with the arguments "
    "passed and extrapolates beyond its nodes (installed scipy sources).")
NOT_DECIDED = "exactness on power-law/polynomial data (a property of the interpolants); smoothing behaviour of UnivariateSpline."
ASSUMPTIONS = ["T-LIB: scipy interpolant call/derivative idioms f(x, nu=k), f.derivative(x, der=k), numpy.polyder(p, m=k), polyval",
               "T-LIB: default extrapolation of PPoly subclasses read from scipy/interpolate/_cubic.py; FITPACK ext=0 extrapolates",
               "T-LIB: numpy.vander default is decreasing powers (poly1d convention)"]


def fold_helper(ctx, model, method):
    reg = Registry()
    intr = intrinsics(reg)
    ev = Ev(model, {}, intr, ctx=ctx)
    name = HELPERS[method]
    ref = f"{MG}:{name}"
    f = model.func(ref)
    params = [a.arg for a in f.args.args]
    kwargs = {"order": ORDER}
    if "method" in params:
        kwargs["method"] = method
    out = ev.call_def(f, model.mods[MG], ref, [MV, MF, VA], kwargs)
    return out, reg, ref, f


def analyse_triple(out, reg):
    """-> (problems list, interp used, x used)"""
    probs = []
    if not isinstance(out, Tup) or len(out.items) != 3:
        return [f"returns {type(out).__name__} instead of a 3-tuple"], None, None
    x_want = sp.log(VA)
    ids, xs = set(), set()
    for pos, (item, order, sign) in enumerate(zip(out.items, (0, 1, 2), (1, -1, -1))):
        e = as_sym(item)
        if pos == 0:
            if not (isinstance(e, sp.exp)):
                probs.append(f"element 0 is not exp(f(x)): {e}")
                continue
            e = e.args[0]
        else:
            e = sp.expand(sign * e)
        if getattr(e, "func", None) != EVAL:
            probs.append(f"element {pos} is not {'+' if sign > 0 else '-'}f^({order})(x): {item}")
            continue
        fid, k, x = e.args
        ids.add(fid)
        xs.add(x)
        if k != order:
            probs.append(f"element {pos} evaluates derivative order {k}, required {order}")
    if len(ids) > 1:
        probs.append(f"the three elements come from different interpolants {sorted(map(str, ids))}")
    if len(xs) > 1 or (xs and xs != {x_want}):
        probs.append(f"evaluation abscissa is {sorted(map(str, xs))}, required log(v_array)")
    it = None
    if len(ids) == 1:
        sym = next(iter(ids))
        it = next((i for i in reg.interps if i.sym == sym), None)
    return probs, it, x_want


def r_helpers(ctx, model):
    for method in HELPERS:
        name = HELPERS[method]
        try:
            out, reg, ref, f = fold_helper(ctx, model, method)
        except RaisedV as e:
            ref = f"{MG}:{name}"
            f = model.func(ref)
            w = model.where(ref, f)
            missing = getattr(e, "missing", None)
            cls = getattr(e, "cls", "?")
            key = f"{method}:scipy.interpolate.{cls}:missing-{'-'.join(missing)}" if missing else f"{method}:raises-{e.exc_name}"
            ctx.begin_rule("R11.8", RULE_TEXT["R11.8"])
            ctx.violation(key, w, expected="the interpolator is constructed with the arguments its installed signature requires",
                          found=f"{e.exc_name}" + (f": {cls}() lacks {missing}" if missing else ""),
                          explanation=f"method {method!r} cannot be constructed: {cls}(x, y) lacks required argument(s) {missing}; "
                                      f"a schema-valid configuration aborts" if missing else f"method {method!r} raises {e.exc_name} for every input",
                          instance=f"{method}: constructible")
            ctx.begin_rule("R11.1-3", RULE_TEXT["R11.1-3"])
            continue
        except AnalysisError as e0:
            if e0.reason != "coefficient-order-mismatch":
                raise
            ref = f"{MG}:{name}"
            ctx.violation(f"{method}.coefficient-order", model.where(ref), expected="coefficients in decreasing powers for poly1d/polyval",
                          found="Vandermonde matrix built with increasing powers", explanation=f"method {method!r}: the fitted coefficients "
                          "are read in the wrong order (increasing vs decreasing powers)", instance=f"{method}: coefficient order")
            continue
        w = model.where(ref, f)
        probs, it, _ = analyse_triple(out, reg)
        ctx.check(not probs, f"{method}: (exp f(x), -f'(x), -f''(x)) of one interpolant at x = log(v_array)", w,
                  expected="(exp(EVAL(F,0,log VA)), -EVAL(F,1,log VA), -EVAL(F,2,log VA))", found="; ".join(probs) or str(out.items),
                  explanation=f"method {method!r}: the returned frequency, Grueneisen parameter and its logarithmic volume "
                              f"derivative do not belong to one interpolant with signs (+,-,-)", key=f"{method}.triple")
        if it is None:
            continue
        # nodes: (T(log MV), T(log MF)) with one transform T
        xn, yn = sp.sympify(it.x), sp.sympify(it.y)
        same = xn.subs(MV, MF) == yn and xn.has(MV) and not xn.has(MF)
        loglog = all(_inside_log(e, s) for e, s in ((xn, MV), (yn, MF)))
        ctx.check(same and loglog, f"{method}: nodes are (log V, log omega) under one reordering/subsampling", w,
                  expected="x_nodes = T(log(mode_volumes)), y_nodes = T(log(mode_freqs)) with the same T",
                  found=f"x = {xn}; y = {yn}",
                  explanation=f"method {method!r}: node abscissae and ordinates are not the logarithms of volumes and frequencies "
                              f"under the same flip/subsampling (points would be paired wrongly)", key=f"{method}.nodes")
        # R11.8 extrapolation
        ctx.begin_rule("R11.8", RULE_TEXT["R11.8"])
        noext = [(k, str(x)) for (i2, k, x, ext) in reg.evals if i2 is it and not ext]
        ctx.check(not noext, f"{method}: evaluates beyond the node range without NaN", w,
                  expected="extrapolating interpolant (default, attribute or keyword)", found=f"non-extrapolating evaluations: {noext}" if noext else
                  f"{it.cls or it.kind}: extrapolates",
                  explanation=f"method {method!r}: {it.cls} does not extrapolate by default, so every value outside the sampled "
                              f"volumes (the grid is expanded by volume_ratio) is NaN", key=f"{method}:{it.cls or it.kind}:no-extrapolation")
        ctx.begin_rule("R11.1-3", RULE_TEXT["R11.1-3"])
    ctx.floor("interpolation methods folded", len(HELPERS), 7)


def _inside_log(expr, sym):
    """every occurrence of sym sits inside exactly one log()"""
    logs = [l for l in expr.atoms(sp.log) if l.has(sym)]
    if not logs:
        return False
    stripped = expr
    for l in logs:
        stripped = stripped.subs(l, sp.Symbol("L"))
    return not stripped.has(sym)


def r_loop(ctx, model):
    ref = f"{MG}:interpolate_modes"
    f = model.func(ref)
    ctx.fn(ref)
    w = model.where(ref, f)
    roles, n_calls = interpolate_modes_roles(model)
    ctx.check(roles == [0, 1, 2], "returns (omega, gamma, V dgamma/dV) in helper order", w, expected="[0, 1, 2]", found=str(roles),
              explanation="interpolate_modes returns its three arrays in an order different from the one its helpers fill", key="loop.return")
    # loops: for j in range(nq): for k in range(np)
    fors = [n for n in ast.walk(f) if isinstance(n, ast.For)]
    outer = [n for n in fors if any(isinstance(c, ast.For) for c in ast.walk(n) if c is not n)]
    if len(outer) != 1:
        raise AnalysisError("interpolate_modes: expected one nested loop pair")
    lo = outer[0]
    li = next(c for c in ast.walk(lo) if isinstance(c, ast.For) and c is not lo)
    jq, km = src(lo.target), src(li.target)
    dom = (src(lo.iter), src(li.iter))
    env_names = {}
    for st in body_wo_doc(f):
        if isinstance(st, ast.Assign) and isinstance(st.targets[0], ast.Name):
            env_names[st.targets[0].id] = src(st.value)
    qi = f.args.args[0].arg

    def range_arg(it):
        if isinstance(it, ast.Call) and dotted_name(it.func) == "range" and len(it.args) == 1:
            a0 = src(it.args[0])
            return env_names.get(a0, a0)
        raise AnalysisError(f"unrecognised loop domain {src(it)}")

    d0, d1 = range_arg(lo.iter), range_arg(li.iter)
    ctx.check((d0, d1) == (f"{qi}.nq", f"{qi}.np"), "loops run over all nq q-points and np modes", model.where(ref, lo),
              expected=f"for j in range({qi}.nq): for k in range({qi}.np)", found=f"range({d0}) / range({d1})",
              explanation="the loops do not cover every (q, mode) index", key="loop.domain")
    # frequency read and the three writes use the same (j, k)
    reads = []
    for nn in ast.walk(li):
        if (isinstance(nn, ast.Subscript) and isinstance(nn.value, ast.Attribute) and nn.value.attr == "modes"
                and isinstance(nn.value.value, ast.Subscript) and isinstance(nn.value.value.value, ast.Attribute)
                and nn.value.value.value.attr == "q_points"):
            reads.append((src(nn.value.value.slice), src(nn.slice)))
    if not reads:
        raise AnalysisError("interpolate_modes: read of q_points[..].modes[..] not found")
    ctx.check(all(r == (jq, km) for r in reads), "frequencies read at q_points[j].modes[k]", model.where(ref, li), expected=f"q_points[{jq}].modes[{km}]",
              found=str(reads), explanation="the frequencies handed to the helper are not those of q-point j, mode k", key="loop.read")
    bad = []
    n = 0
    for st in ast.walk(li):
        if isinstance(st, ast.Assign) and isinstance(st.targets[0], ast.Tuple) and isinstance(st.value, ast.Call) \
                and (dotted_name(st.value.func) or "").startswith("interpolate_mode_"):
            n += 1
            for e in st.targets[0].elts:
                sl = e.slice if isinstance(e, ast.Subscript) else None
                if not (isinstance(sl, ast.Tuple) and len(sl.elts) == 3 and isinstance(sl.elts[0], ast.Slice)
                        and sl.elts[0].lower is None and sl.elts[0].upper is None and sl.elts[0].step is None):
                    raise AnalysisError(f"unrecognised output index {src(e)}")
                if [src(x) for x in sl.elts[1:]] != [jq, km]:
                    bad.append(f"{src(e)}")
            # arguments: (mode_volumes, mode_freqs, v_array, ...)
            a = st.value.args
            if len(a) < 3 or [src(x) for x in a[:3]] != ["mode_volumes", "mode_freqs", f.args.args[1].arg]:
                bad.append(f"arguments {[src(x) for x in a[:3]]}")
            kw = {k.arg: src(k.value) for k in st.value.keywords}
            if kw.get("order") != "order":
                bad.append(f"order={kw.get('order')}")
    ctx.check(not bad and n >= 5, "all three outputs written at [:, j, k]; helpers receive (volumes, freqs, v_array, order)", model.where(ref, li),
              expected="X[:, j, k] for the three arrays", found="; ".join(bad[:4]) or f"{n} dispatch branches as required",
              explanation="q-points or modes are mixed: an output is written at another index than the one read", key="loop.write")
    # skip condition
    skips = [n for n in li.body if isinstance(n, ast.If) and len(n.body) == 1 and isinstance(n.body[0], ast.Continue)]
    okskip = len(skips) == 1 and skip_is_gamma_acoustic(skips[0].test, jq, km)
    ctx.check(okskip, "skips exactly the three acoustic modes at the first q-point", model.where(ref, li), expected=f"if {jq} == 0 and {km} in range(3): continue",
              found=src(skips[0].test) if skips else "no skip", explanation="Gamma-point acoustic modes are not left at zero, or other modes are skipped", key="loop.skip")
    # zero initialisation with shape (ntv, nq, np)
    zs = {}
    for st in body_wo_doc(f):
        if isinstance(st, ast.Assign) and isinstance(st.targets[0], ast.Name) and isinstance(st.value, ast.Call) \
                and dotted_name(st.value.func) == "numpy.zeros":
            zs[st.targets[0].id] = src(st.value.args[0])
    rets = [s for s in ast.walk(f) if isinstance(s, ast.Return)]
    names = [src(e) for e in rets[0].value.elts]
    va = f.args.args[1].arg

    def shape_of(text):
        t = ast.parse(text, mode="eval").body
        if not isinstance(t, ast.Tuple):
            return None
        return tuple(env_names.get(src(e), src(e)) for e in t.elts)

    want_shape = (f"{va}.shape[0]", f"{qi}.nq", f"{qi}.np")
    if not all(nm in zs for nm in names):
        raise AnalysisError(f"interpolate_modes: output arrays {names} are not all created by numpy.zeros")
    ctx.check(all(shape_of(zs[nm]) == want_shape for nm in names), "outputs start as zeros of shape (ntv, nq, np)", w, expected=str(want_shape),
              found=str({nm: shape_of(zs[nm]) for nm in names}), explanation="an output array does not start from zeros of the grid shape", key="loop.zeros")
    # mode_volumes from volume.volume in file order
    mvn = None
    for st in body_wo_doc(f):
        if isinstance(st, ast.Assign) and isinstance(st.targets[0], ast.Name) and st.targets[0].id == "mode_volumes":
            mvn = st.value
    comp = mvn.args[0] if isinstance(mvn, ast.Call) and mvn.args else mvn
    if not (isinstance(comp, (ast.ListComp, ast.GeneratorExp)) and len(comp.generators) == 1):
        raise AnalysisError("interpolate_modes: construction of mode_volumes not recognised")
    g = comp.generators[0]
    ctx.check(src(g.iter) == f"{qi}.volumes" and not g.ifs and src(comp.elt) == f"{src(g.target)}.volume", "node volumes are the input volumes in file order", w,
              expected=f"[v.volume for v in {qi}.volumes]", found=src(comp)[:120], explanation="node volumes are not the input volumes in file order",
              key="loop.volumes")


def skip_is_gamma_acoustic(test, jq, km):
    if not (isinstance(test, ast.BoolOp) and isinstance(test.op, ast.And) and len(test.values) == 2):
        return False
    parts = {src(v).replace(" ", "") for v in test.values}
    okq = f"{jq}==0" in parts
    okm = bool(parts & {f"{km}inrange(3)", f"{km}<3", f"{km}in(0,1,2)", f"{km}in[0,1,2]", f"{km}<=2"})
    return okq and okm


def dispatch_methods(model):
    """methods that interpolate_modes dispatches to a helper, and the helper each goes to"""
    f = model.func(f"{MG}:interpolate_modes")
    out = {}
    mparam = "method"
    for n in ast.walk(f):
        if isinstance(n, ast.If) and isinstance(n.test, ast.Compare) and isinstance(n.test.left, ast.Name) and n.test.left.id == mparam:
            vals = []
            c = n.test.comparators[0]
            if isinstance(n.test.ops[0], ast.Eq) and isinstance(c, ast.Constant):
                vals = [c.value]
            elif isinstance(n.test.ops[0], ast.In) and isinstance(c, (ast.List, ast.Tuple, ast.Set)):
                vals = [e.value for e in c.elts if isinstance(e, ast.Constant)]
            callee = [dotted_name(x.func) for s in n.body for x in ast.walk(s) if isinstance(x, ast.Call)
                      and (dotted_name(x.func) or "").startswith("interpolate_mode_")]
            for v in vals:
                out[v] = callee[0] if callee else None
    return out


def inner_ppoly_methods(model):
    f = model.func(f"{MG}:interpolate_mode_ppoly")
    out = {}
    for n in ast.walk(f):
        if isinstance(n, ast.If) and isinstance(n.test, ast.Compare) and isinstance(n.test.left, ast.Name) and n.test.left.id == "method" \
                and isinstance(n.test.ops[0], ast.Eq) and isinstance(n.test.comparators[0], ast.Constant):
            out[n.test.comparators[0].value] = True
    return out


def r_dispatch(ctx, model):
    schema = json.loads((REPO / "cij" / "data" / "schema" / "config.schema.json").read_text())
    try:
        enum = schema["definitions"]["elast_settings"]["properties"]["mode_gamma"]["properties"]["interpolator"]["enum"]
    except KeyError:
        raise AnalysisError("schema: mode_gamma.interpolator.enum not found")
    disp = dispatch_methods(model)
    inner = inner_ppoly_methods(model)
    w = model.where(f"{MG}:interpolate_modes")
    missing = [m for m in enum if m not in disp or disp[m] is None]
    ctx.check(not missing, "every schema-valid interpolator is dispatched (an unhandled name silently returns zeros)", w,
              expected=str(sorted(enum)), found=f"dispatched {sorted(disp)}; missing {missing}",
              explanation="a documented, schema-valid interpolator name is not handled by interpolate_modes: all frequencies stay 0",
              key="dispatch.exhaustive")
    pp = [m for m, h in disp.items() if h == "interpolate_mode_ppoly"]
    ctx.check(sorted(pp) == sorted(inner), "names sent to interpolate_mode_ppoly = names it selects a class for", model.where(f"{MG}:interpolate_mode_ppoly"),
              expected=str(sorted(pp)), found=str(sorted(inner)), explanation="a method name reaches interpolate_mode_ppoly without a class "
                                                                           "being selected for it (UnboundLocalError)", key="dispatch.ppoly")
    wrong = [m for m, h in disp.items() if m in HELPERS and h != HELPERS[m]]
    ctx.check(not wrong, "each method name goes to its own helper", w, expected=str(HELPERS), found=str({m: disp[m] for m in wrong}),
              explanation="a method name is routed to another method's helper", key="dispatch.routing")
    # default settings use a dispatched method
    import yaml
    dflt = yaml.safe_load((REPO / "cij" / "data" / "default" / "settings.yaml").read_text())
    dm = dflt["elast"]["settings"]["mode_gamma"]["interpolator"]
    ctx.check(dm in disp, "default interpolator is dispatched", Where("cij/data/default/settings.yaml", "mode_gamma.interpolator", 0),
              expected=f"one of {sorted(disp)}", found=dm, explanation="the packaged default names an interpolator that is not handled", key="dispatch.default")
    # consumer passes (qha_input, v_array, configured interpolator, configured order)
    seeds, intr, calc = physics_seeds(model)
    cap = {}

    def im(ev, a, k):
        cap["a"], cap["k"] = a, k
        return Tup([sp.Symbol("R0"), sp.Symbol("R1"), sp.Symbol("R2")])

    intr["cij.core.mode_gamma:interpolate_modes"] = im
    ev = Ev(model, seeds, intr, ctx=ctx)
    cf = model.func(f"{CALC}._interpolate_modes")
    ev.call_def(cf, model.mods["cij.core.calculator"], f"{CALC}._interpolate_modes", [calc], {})
    from ..facts import V
    a, k = cap.get("a", []), cap.get("k", {})
    names_, _ = [x.arg for x in model.func(f"{MG}:interpolate_modes").args.args], None
    b = dict(zip(names_, a))
    b.update(k)
    norm = lambda o: getattr(o, "name", str(o)).replace('"', "'")
    ok = (norm(b.get("qha_input")) == "qha_input" and is_sym(b.get("v_array")) and sp.simplify(b["v_array"] - V / U.bohr ** 3) == 0
          and norm(b.get("method")) == "config['elast']['settings']['mode_gamma']['interpolator']"
          and norm(b.get("order")) == "config['elast']['settings']['mode_gamma']['order']")
    ctx.check(ok, "Calculator passes (qha_input, v_array, configured interpolator, configured order)", model.where(f"{CALC}._interpolate_modes", cf),
              expected="interpolate_modes(qha_input, qha v_array, method=config..interpolator, order=config..order)",
              found=str({kk: norm(v) for kk, v in b.items()})[:300],
              explanation="the configured interpolator/order or the volume grid is not what interpolate_modes receives", key="dispatch.consumer")


def r_plot(ctx, model):
    seeds, intr, calc = physics_seeds(model)
    calc.attrs["np"] = sp.Integer(5)
    plotted = []

    class Ax:
        def sym_getattr(self, ev, name, node, mod):
            from ..sym import BoundLib
            return BoundLib(f"ax.{name}", self)

    intr["ax.plot"] = lambda ev, a, k: plotted.append(("plot", a[1:])) or None
    intr["ax.scatter"] = lambda ev, a, k: plotted.append(("scatter", a[1:])) or None
    calc.attrs["qha_input"] = Opaque("qha_input")
    ref = "cij.plot.modes:ModePlotter.plot_modes"
    f = model.func(ref)
    w = model.where(ref, f)
    want = {0: FREQ * U.UNIT_TABLE["cm"], 1: GAMMA, 2: VDR}
    names = {0: "omega", 1: "gamma", 2: "V dgamma/dV"}
    for n in (0, 1, 2):
        for iq, nlines in ((0, 2), (1, 5)):
            del plotted[:]
            ev = Ev(model, seeds, intr, ctx=ctx)
            ev.seeds[("cij.plot.modes:ModePlotter", "volumes")] = sp.Symbol("PLOTVOLS")
            plotter = Obj("cij.plot.modes:ModePlotter", {"calculator": calc})
            try:
                ev.call_def(f, model.mods["cij.plot.modes"], ref, [plotter, Ax(), sp.Integer(n), sp.Integer(iq)], {})
            except AnalysisError as e:
                if n != 0 or "iteration over a non-constant" not in e.reason:
                    raise
            lines = [a for kind, a in plotted if kind == "plot"]
            bases = set()
            for a in lines:
                y = as_sym(a[1])
                core = [t for t in sp.Mul.make_args(y) if is_indexed(t)]
                inner = core[0].args[0] if core else y
                while is_indexed(inner) or (isinstance(inner, sp.Mul) and any(is_indexed(t) for t in inner.args)):
                    t2 = [t for t in sp.Mul.make_args(inner) if is_indexed(t)]
                    inner = sp.Mul(*[t for t in sp.Mul.make_args(inner) if not is_indexed(t)]) * t2[0].args[0]
                rest = sp.Mul(*[t for t in sp.Mul.make_args(y) if not is_indexed(t)])
                bases.add(sp.simplify(rest * inner))
            ok = bases == {want[n]} and len(lines) == nlines
            ctx.check(ok, f"plot_modes n={n} iq={iq} draws {names[n]} ({nlines} modes)", w, expected=f"{nlines} lines of {want[n]}",
                      found=f"{len(lines)} lines of {sorted(map(str, bases))}",
                      explanation=f"the diagnostic plot for n={n} does not draw {names[n]} (or does not skip the Gamma acoustic modes)",
                      key=f"plot.n{n}")


RULE_TEXT = {
    "R11.1-3": "each method folds to (exp f(x), -f'(x), -f''(x)) of one interpolant at x = log(v_array); nodes (log V, log omega) under one transform",
    "R11.8": "every reachable interpolator class is constructible and extrapolates (installed scipy sources)",
}
RULES = [
    ("R11.1-3", RULE_TEXT["R11.1-3"], r_helpers),
    ("R11.4", "interpolate_modes: index agreement, Gamma skip, zero init, return order", r_loop),
    ("R11.5-6", "dispatch covers the schema enum; routing; consumer wiring", r_dispatch),
    ("R11.7", "plot_modes draws omega / gamma / V dgamma/dV for n = 0 / 1 / 2", r_plot),
]
