"""C11 — every interpolation method returns a consistent (omega, gamma, V dgamma/dV) triple."""
from __future__ import annotations

import ast
import json

import sympy as sp

from .. import units as U
from ..facts import physics_seeds, interpolate_modes_roles, CALC, FREQ, GAMMA, VDR, LONG
from ..interpmodel import Registry, intrinsics, EVAL, FLIP, InterpV
from ..libsum import ppoly_default_extrapolate
from ..model import dotted_name, src, body_wo_doc
from ..report import AnalysisError, REPO, Where
from ..sym import Ev, Tup, Obj, RaisedV, as_sym, is_sym, Indexed, is_indexed, Opaque

MG = "cij.core.mode_gamma"
P = dict(positive=True)
MV, MF, VA = sp.symbols("MV MF VA", **P)
ORDER = sp.Symbol("ORDER", positive=True, integer=True)
HELPERS = {"spline": "interpolate_mode_spline", "lagrange": "interpolate_mode_lagrange", "krogh": "interpolate_mode_krogh",
           "pchip": "interpolate_mode_ppoly", "akima": "interpolate_mode_ppoly", "hermite": "interpolate_mode_ppoly",
           "lsq_poly": "interpolate_mode_lsq_poly"}

LEVEL = "other"
TECHNIQUE = "static analysis: folding of each interpolation helper to (exp f(x), -f'(x), -f''(x)) over interpolant atoms; decision tables; library summaries read from installed scipy"
EXPLANATION = (
    "Static analysis decides: each of the seven dispatchable methods, folded with scipy/numpy interpolant constructs as "
    "atoms, returns (exp(f(x)), -f^(1)(x), -f^(2)(x)) for ONE interpolant f and ONE abscissa x = log(v_array); the nodes "
    "are (log V, log omega) under the same reordering/subsampling; interpolate_modes writes the three outputs at the same "
    "(q, m) it reads, skips exactly the three acoustic Gamma modes, starts from zeros and returns (omega, gamma, V dgamma/dV); "
    "the schema's interpolator enum is covered by the dispatch; the consumer unpacks in return order; plot_modes draws "
    "omega/gamma/V dgamma/dV for n = 0/1/2; every reachable interpolator class is constructible with the arguments "
    "passed and extrapolates beyond its nodes (installed scipy sources).")
NOT_DECIDED = "exactness on power-law/polynomial data (a property of the interpolants); smoothing behaviour of UnivariateSpline."
ASSUMPTIONS = ["T-LIB: scipy interpolant call/derivative idioms f(x, nu=k), f.derivative(x, der=k), numpy.polyder(p, m=k), polyval",
               "T-LIB: default extrapolation of PPoly subclasses read from scipy/interpolate/_cubic.py; FITPACK ext=0 extrapolates",
               "T-LIB: numpy.vander default is decreasing powers (poly1d convention)"]


def fold_helper(ctx, model, method):
    reg = Registry()
    intr = intrinsics(reg)
    ev = Ev(model, {}, intr, ctx=ctx)
    from ..interpmodel import length_of
    from ..sym import Tup as _Tup
    ev.shape_of = lambda v: _Tup([length_of(v)], "tuple")         # the data handed to a helper are vectors over the sampled volumes
    name = HELPERS[method]
    ref = f"{MG}:{name}"
    f = model.func(ref)
    params = [a.arg for a in f.args.args]
    kwargs = {"order": ORDER}
    if "method" in params:
        kwargs["method"] = method
    out = ev.call_def(f, model.mods[MG], ref, [MV, MF, VA], kwargs)
    return out, reg, ref, f


class _Captured(Exception):
    def __init__(self, cls, x, y):
        self.cls, self.x, self.y = cls, x, y


def fold_nodes(ctx, model, method, nv, order):
    """the node-selecting helper folded on CONCRETE index data: volume i of a decreasing list is the number 1000 - i, its
    frequency 2000 + i; the constructor of the interpolant captures the nodes it is given.  -> (cls, x cells, y cells)"""
    from ..sym import ArrV, LIB, lib_stack
    import itertools as _it

    captured = []

    class NodeInterp:
        """stand-in for the interpolant built from the captured nodes: the rest of the helper is folded too, so that what it does with the
        interpolant (number of derivative rows unpacked, ...) is seen for this very number of nodes"""

        def __init__(self, cls, nnodes, tag="f"):
            self.cls, self.nnodes, self.tag = cls, nnodes, tag

        def sym_call(self, ev, args, kwargs, n, mod):
            nu = kwargs.get("nu", args[1] if len(args) > 1 else sp.Integer(0))
            return sp.Function(f"NODEINTERP_{self.tag}")(as_sym(args[0]), as_sym(nu))

        def sym_getattr(self, ev, name, node, mod):
            from ..sym import BoundLib
            if name in ("derivative", "derivatives"):
                return BoundLib(f"nodeinterp.{name}", self)
            if name == "extrapolate":
                return True
            raise ev.err(f"attribute {name} of the interpolant in the node fold", node, mod)

        def sym_setattr(self, ev, name, v, node, mod):
            return None

    def capture(cls):
        def f(ev, a, k):
            if not (isinstance(a[0], ArrV) and len(a[0].shape) == 1):
                raise AnalysisError("the interpolant is constructed from something that is not a node vector")
            k.all() if hasattr(k, "all") else None        # constructor options (extrapolate, ...) are judged by R11.8, not by the node fold
            captured.append((cls, a[0], a[1]))
            return NodeInterp(cls, a[0].shape[0])
        return f

    def derivative(ev, a, k):
        if a[0].cls in ("PchipInterpolator", "Akima1DInterpolator", "CubicHermiteSpline", "CubicSpline") or (len(a) == 1 and not k) or (len(a) == 2 and is_sym(a[1]) and a[1].is_Integer):
            # piecewise polynomials: .derivative(nu) is a new interpolant (callable), not values
            nu = k.get("nu", a[1] if len(a) > 1 else sp.Integer(1))
            return NodeInterp(a[0].cls, a[0].nnodes, f"{a[0].tag}_d{int(as_sym(nu))}")
        der = k.get("der", a[2] if len(a) > 2 else sp.Integer(1))
        return sp.Function("NODEINTERP_d")(as_sym(a[1]), as_sym(der))

    def derivatives(ev, a, k):
        # KroghInterpolator.derivatives(x, der=None): one row per derivative order 0 .. der-1; with der=None as many rows as there are nodes
        der = k.get("der", a[2] if len(a) > 2 else None)
        rows = a[0].nnodes if der is None else int(as_sym(der))
        return Tup([sp.Function("NODEINTERP_d")(as_sym(a[1]), sp.Integer(i)) for i in range(rows)], "list")

    def polyder(ev, a, k):
        m_ = k.get("m", a[1] if len(a) > 1 else sp.Integer(1))
        return NodeInterp(a[0].cls, a[0].nnodes, f"poly_d{int(as_sym(m_))}")

    def append(ev, a, k):
        x, v = a[0], a[1]
        if not (isinstance(x, ArrV) and len(x.shape) == 1 and not x.batch) or k.get("axis") is not None:
            raise AnalysisError("numpy.append of something that is not a node index vector")
        tail = [v.get((i,)) for i in range(v.shape[0])] if isinstance(v, ArrV) else [as_sym(v)]
        vals = [x.get((i,)) for i in range(x.shape[0])] + tail
        return ArrV(0, (len(vals),), cells={(i,): c for i, c in enumerate(vals)})

    def union1d(ev, a, k):
        vals = set()
        for v in a[:2]:
            for c in ([v.get((i,)) for i in range(v.shape[0])] if isinstance(v, ArrV) else [as_sym(v)]):
                if not sp.sympify(c).is_Integer:
                    raise AnalysisError("numpy.union1d of values that are not integer indices")
                vals.add(int(c))
        vals = sorted(vals)
        return ArrV(0, (len(vals),), cells={(i,): sp.Integer(c) for i, c in enumerate(vals)})

    def flip(ev, a, k):
        x = a[0]
        if not (isinstance(x, ArrV) and len(x.shape) == 1):
            raise AnalysisError("numpy.flip of something that is not a node vector")
        ax = k.get("axis", a[1] if len(a) > 1 else None)
        if ax is not None and int(as_sym(ax)) not in (0, -1):
            raise RaisedV("AxisError")
        n_ = x.shape[0]
        return ArrV(0, (n_,), cells={(i,): x.get((n_ - 1 - i,)) for i in range(n_)})

    def log(ev, a, k):
        x = a[0]
        if isinstance(x, ArrV):
            return ArrV(x.batch, x.shape, cells={kk: sp.Function("LOGN")(c) for kk, c in x.cells.items()})
        return sp.log(as_sym(x))

    def ceil(ev, a, k):
        return sp.ceiling(as_sym(a[0]))

    def floor(ev, a, k):
        return sp.floor(as_sym(a[0]))

    def int_(ev, a, k):
        v = as_sym(a[0])
        if not v.is_number:
            raise AnalysisError("int() of a non-constant in the node selection")
        return sp.Integer(int(v))

    def linspace(ev, a, k):
        lo, hi, num = as_sym(a[0]), as_sym(a[1]), int(as_sym(a[2] if len(a) > 2 else k.get("num", 50)))
        if num < 0:
            raise RaisedV("ValueError")
        vals = [lo + (hi - lo) * sp.Rational(i, num - 1) for i in range(num)] if num > 1 else ([lo] if num == 1 else [])
        return ArrV(0, (len(vals),), cells={(i,): v for i, v in enumerate(vals)})

    def rint(ev, a, k):
        def one(v):
            v = sp.nsimplify(v, rational=True)
            fl = sp.floor(v)
            d = v - fl
            return fl if d < sp.Rational(1, 2) else (fl + 1 if d > sp.Rational(1, 2) else (fl if fl % 2 == 0 else fl + 1))
        x = a[0]
        if isinstance(x, ArrV):
            return ArrV(x.batch, x.shape, cells={kk: one(c) for kk, c in ((key, x.get(key)) for key in _it.product(*[range(d) for d in x.shape]))})
        return one(as_sym(x))

    def astype(ev, a, k):
        x = a[0]
        if isinstance(x, ArrV):
            tgt = repr(a[1] if len(a) > 1 else k.get("dtype"))
            if "int" in tgt:
                return ArrV(x.batch, x.shape, cells={key: sp.Integer(int(x.get(key))) for key in _it.product(*[range(d) for d in x.shape])})
            return x
        return x

    def arange(ev, a, k):
        vals = list(range(*[int(as_sym(x)) for x in a]))
        return ArrV(0, (len(vals),), cells={(i,): sp.Integer(v) for i, v in enumerate(vals)})

    def sort_(ev, a, k):
        x = a[0]
        if not (isinstance(x, ArrV) and len(x.shape) == 1):
            raise AnalysisError("numpy.sort of something that is not a node vector")
        key = lambda c: float(c.args[0]) if getattr(c, "func", None) == sp.Function("LOGN") else float(c)
        vals = sorted((x.get((i,)) for i in range(x.shape[0])), key=key)
        return ArrV(0, (len(vals),), cells={(i,): v for i, v in enumerate(vals)})

    def unique(ev, a, k):
        x = a[0]
        vals = sorted({x.get((i,)) for i in range(x.shape[0])})
        return ArrV(0, (len(vals),), cells={(i,): v for i, v in enumerate(vals)})

    class VanderNodes:
        def __init__(self, x, ncols):
            self.x, self.ncols = x, ncols

    def vander(ev, a, k):
        if not (isinstance(a[0], ArrV) and len(a[0].shape) == 1):
            raise AnalysisError("numpy.vander of something that is not a node vector")
        return VanderNodes(a[0], a[1] if len(a) > 1 else k.get("N"))

    def lstsq(ev, a, k):
        # the least-squares polynomial through the node vector: the nodes are what the Vandermonde matrix was built from
        if not isinstance(a[0], VanderNodes):
            raise AnalysisError("numpy.linalg.lstsq of something that is not the Vandermonde matrix of the nodes")
        k.get("rcond")
        captured.append(("lstsq", a[0].x, a[1]))
        coef = NodeInterp("lstsq", a[0].x.shape[0], "coef")
        return Tup([coef, sp.Integer(0), sp.Integer(0), sp.Integer(0)])

    def poly1d(ev, a, k):
        if isinstance(a[0], NodeInterp):
            return NodeInterp(a[0].cls, a[0].nnodes)
        raise AnalysisError("numpy.poly1d of something that is not a coefficient vector of the node fit")

    def polyval(ev, a, k):
        if isinstance(a[0], NodeInterp):
            return sp.Function(f"NODEINTERP_{a[0].tag}")(as_sym(a[1]), sp.Integer(0))
        raise AnalysisError("numpy.polyval of something that is not the node polynomial")

    intr = {"numpy.vander": vander, "numpy.linalg.lstsq": lstsq, "numpy.poly1d": poly1d, "numpy.polyval": polyval,
            "scipy.interpolate.lagrange": capture("lagrange"), "scipy.interpolate.KroghInterpolator": capture("KroghInterpolator"),
            "scipy.interpolate.PchipInterpolator": capture("PchipInterpolator"), "scipy.interpolate.Akima1DInterpolator": capture("Akima1DInterpolator"),
            "scipy.interpolate.CubicHermiteSpline": capture("CubicHermiteSpline"), "scipy.interpolate.CubicSpline": capture("CubicSpline"),
            "scipy.interpolate.UnivariateSpline": capture("UnivariateSpline"), "scipy.interpolate.InterpolatedUnivariateSpline": capture("UnivariateSpline"),
            "numpy.flip": flip, "numpy.log": log, "numpy.ceil": ceil, "numpy.floor": floor, "math.ceil": ceil, "math.floor": floor, "builtins.int": int_,
            "numpy.linspace": linspace, "numpy.rint": rint, "numpy.round": rint, "numpy.around": rint, "ndarray.astype": astype, "numpy.arange": arange,
            "numpy.unique": unique, "numpy.sort": sort_, "numpy.append": append, "numpy.union1d": union1d, "numpy.polyder": polyder,
            "nodeinterp.derivative": derivative, "nodeinterp.derivatives": derivatives,
            "numpy.exp": lambda ev, a, k: sp.Function("EXPOF")(as_sym(a[0]))}
    ev = Ev(model, {}, intr, ctx=ctx)
    name = HELPERS[method]
    ref = f"{MG}:{name}"
    f = model.func(ref)
    params = [a.arg for a in f.args.args]
    kwargs = {"order": sp.Integer(order)}
    if "method" in params:
        kwargs["method"] = method
    vols = ArrV(0, (nv,), cells={(i,): sp.Integer(1000 - i) for i in range(nv)})
    freqs = ArrV(0, (nv,), cells={(i,): sp.Integer(2000 + i) for i in range(nv)})
    def cells(v):
        if not (isinstance(v, ArrV) and len(v.shape) == 1):
            raise AnalysisError("the interpolant is constructed from something that is not a node vector")
        return [v.get((i,)) for i in range(v.shape[0])]
    try:
        ev.call_def(f, model.mods[MG], ref, [vols, freqs, VA], kwargs)
    except RaisedV:
        raise
    except AnalysisError as e:
        # after the interpolant exists, a fixed number of values unpacked from a result whose length is the number of nodes is a
        # ValueError at run time for this (volume count, order); anything else the fold cannot read stays an analysis error
        if captured and "unpack arity" in e.reason:
            raise RaisedV("ValueError", getattr(e, "where", ""))
        raise
    if len(captured) != 1:
        raise AnalysisError(f"{name} constructs {len(captured)} interpolants")
    cls, x, y = captured[0]
    return cls, cells(x), cells(y)


NODE_METHODS = ("lagrange", "krogh", "pchip", "akima")


def r_node_selection(ctx, model):
    """for every number of volumes 2..16 and every order 1..12: the selected nodes are distinct volumes in increasing ln V, each
    paired with its own frequency, and the selection raises nothing"""
    LOGN = sp.Function("LOGN")
    for method in NODE_METHODS:
        ref = f"{MG}:{HELPERS[method]}"
        w = model.where(ref)
        bad = []
        n = 0
        for nv in range(2, 17):
            for order in range(1, 13):
                n += 1
                try:
                    cls, xs, ys = fold_nodes(ctx, model, method, nv, order)
                except RaisedV as e:
                    bad.append(f"nv={nv}, order={order}: raises {e.exc_name}")
                    continue
                idx_x = [1000 - int(c.args[0]) if getattr(c, "func", None) == LOGN else None for c in xs]
                idx_y = [int(c.args[0]) - 2000 if getattr(c, "func", None) == LOGN else None for c in ys]
                if None in idx_x or None in idx_y:
                    bad.append(f"nv={nv}, order={order}: nodes are not logarithms of the input volumes / frequencies")
                elif idx_x != idx_y:
                    bad.append(f"nv={nv}, order={order}: volume nodes {idx_x} paired with frequency nodes {idx_y}")
                elif len(set(idx_x)) != len(idx_x):
                    bad.append(f"nv={nv}, order={order}: repeated node(s) {idx_x} (the interpolant needs distinct abscissae)")
                elif idx_x != sorted(idx_x, reverse=True):
                    bad.append(f"nv={nv}, order={order}: nodes not in increasing ln V {idx_x}")
                elif not idx_x:
                    bad.append(f"nv={nv}, order={order}: no node selected")

        ctx.check(not bad, f"{method}: node selection gives distinct, correctly paired nodes in increasing ln V for {n} (volume count, order) pairs", w,
                  expected="distinct input volumes in increasing ln V, each with its own frequency; no exception", found="; ".join(bad[:4]) or f"{n} pairs as required",
                  explanation=f"method {method!r}: for some number of input volumes and configured order the node selection fails or hands the interpolant "
                              f"repeated / wrongly paired / wrongly ordered nodes: the calculation aborts or interpolates the wrong data ({'; '.join(bad[:2])})",
                  key=f"{method}.node-selection")


def analyse_triple(out, reg):
    """-> (problems list, interp used, x used)"""
    probs = []
    if not isinstance(out, Tup) or len(out.items) != 3:
        return [f"returns {type(out).__name__} instead of a 3-tuple"], None, None
    x_want = sp.log(VA)
    ids, xs = set(), set()
    for pos, (item, order, sign) in enumerate(zip(out.items, (0, 1, 2), (1, -1, -1))):
        e = as_sym(item)
        if pos == 0:
            if not (isinstance(e, sp.exp)):
                probs.append(f"element 0 is not exp(f(x)): {e}")
                continue
            e = e.args[0]
        else:
            e = sp.expand(sign * e)
        if getattr(e, "func", None) != EVAL:
            probs.append(f"element {pos} is not {'+' if sign > 0 else '-'}f^({order})(x): {item}")
            continue
        fid, k, x = e.args
        ids.add(fid)
        xs.add(x)
        if k != order:
            probs.append(f"element {pos} evaluates derivative order {k}, required {order}")
    if len(ids) > 1:
        probs.append(f"the three elements come from different interpolants {sorted(map(str, ids))}")
    if len(xs) > 1 or (xs and xs != {x_want}):
        probs.append(f"evaluation abscissa is {sorted(map(str, xs))}, required log(v_array)")
    it = None
    if len(ids) == 1:
        sym = next(iter(ids))
        it = next((i for i in reg.interps if i.sym == sym), None)
    return probs, it, x_want


def r_helpers(ctx, model):
    for method in HELPERS:
        name = HELPERS[method]
        try:
            out, reg, ref, f = fold_helper(ctx, model, method)
        except RaisedV as e:
            if e.exc_name in ("InputAssumption", "IntegerDtype"):
                if not e.where:
                    e.where = f"{model.mods[MG].rel}:{model.func(f'{MG}:{name}').lineno}"
                raise           # a finding with its own wording (wrong / raising for part of the admissible inputs): reported by the driver
            ref = f"{MG}:{name}"
            f = model.func(ref)
            w = model.where(ref, f)
            missing = getattr(e, "missing", None)
            cls = getattr(e, "cls", "?")
            key = f"{method}:scipy.interpolate.{cls}:missing-{'-'.join(missing)}" if missing else f"{method}:raises-{e.exc_name}"
            ctx.begin_rule("R11.8", RULE_TEXT["R11.8"])
            ctx.violation(key, w, expected="the interpolator is constructed with the arguments its installed signature requires",
                          found=f"{e.exc_name}" + (f": {cls}() lacks {missing}" if missing else ""),
                          explanation=f"method {method!r} cannot be constructed: {cls}(x, y) lacks required argument(s) {missing}; "
                                      f"a schema-valid configuration aborts" if missing else (
                                          f"method {method!r} takes an element of a result that is empty for part of the valid inputs (numpy.linalg.lstsq returns no residuals unless the "
                                          f"system is over-determined and of full rank: order + 1 >= number of volumes, or a nearly singular ln V Vandermonde matrix): IndexError there"
                                          if e.exc_name == "EmptySelection" else f"method {method!r} raises {e.exc_name} for every input"),
                          instance=f"{method}: constructible")
            ctx.begin_rule("R11.1-3", RULE_TEXT["R11.1-3"])
            continue
        except AnalysisError as e0:
            if e0.reason != "coefficient-order-mismatch":
                raise
            ref = f"{MG}:{name}"
            ctx.violation(f"{method}.coefficient-order", model.where(ref), expected="coefficients in decreasing powers for poly1d/polyval",
                          found="Vandermonde matrix built with increasing powers", explanation=f"method {method!r}: the fitted coefficients "
                          "are read in the wrong order (increasing vs decreasing powers)", instance=f"{method}: coefficient order")
            continue
        w = model.where(ref, f)
        probs, it, _ = analyse_triple(out, reg)
        ctx.check(not probs, f"{method}: (exp f(x), -f'(x), -f''(x)) of one interpolant at x = log(v_array)", w,
                  expected="(exp(EVAL(F,0,log VA)), -EVAL(F,1,log VA), -EVAL(F,2,log VA))", found="; ".join(probs) or str(out.items),
                  explanation=f"method {method!r}: the returned frequency, Grueneisen parameter and its logarithmic volume "
                              f"derivative do not belong to one interpolant with signs (+,-,-)", key=f"{method}.triple")
        if it is None:
            continue
        # nodes: (T(log MV), T(log MF)) with one transform T
        xn, yn = sp.sympify(it.x), sp.sympify(it.y)
        same = xn.subs(MV, MF) == yn and xn.has(MV) and not xn.has(MF)
        loglog = all(_inside_log(e, s) for e, s in ((xn, MV), (yn, MF)))
        ctx.check(same and loglog, f"{method}: nodes are (log V, log omega) under one reordering/subsampling", w,
                  expected="x_nodes = T(log(mode_volumes)), y_nodes = T(log(mode_freqs)) with the same T",
                  found=f"x = {xn}; y = {yn}",
                  explanation=f"method {method!r}: node abscissae and ordinates are not the logarithms of volumes and frequencies "
                              f"under the same flip/subsampling (points would be paired wrongly)", key=f"{method}.nodes")
        if it.kind == "lsq":
            # exactness on polynomial data of the chosen order needs the full column rank of the Vandermonde matrix in ln V, whose
            # columns are nearly collinear over a +-10 % volume range (singular values down to ~1e-9 of the largest at order 5):
            # a rank cut-off above machine precision silently lowers the order of the fit
            ncols = it.opts.get("ncols")
            from ..interpmodel import length_of
            by_order = ncols is not None and sp.simplify(as_sym(ncols) - (ORDER + 1)) == 0
            # a method that interpolates THROUGH its nodes (lagrange, krogh): the least-squares polynomial with as many coefficients as nodes is the interpolating one
            through_nodes = method in ("lagrange", "krogh") and ncols is not None and sp.simplify(as_sym(ncols) - length_of(it.x)) == 0
            ctx.check(by_order or through_nodes, f"{method}: the fitted polynomial has degree = the chosen order (order + 1 coefficients)" if method not in ("lagrange", "krogh") else
                      f"{method}: the polynomial has as many coefficients as there are nodes (it passes through all of them)", w,
                      expected="order + 1 columns of the ln V Vandermonde matrix / numpy.polyfit(deg=order)" if method not in ("lagrange", "krogh") else "number of coefficients = number of selected nodes",
                      found=f"{ncols} coefficient(s) for order ORDER, {length_of(it.x)} node(s)",
                      explanation=f"method {method!r}: the least-squares polynomial does not have the degree the configuration asks for: data that are "
                                  f"polynomial in ln V of the chosen order are not reproduced (degree too low) or fewer volumes than expected suffice (too high)",
                      key=f"{method}.degree")
            rc = it.opts.get("rcond")
            from ..interpmodel import default_or_smaller_cutoff
            try:
                rc_ok = default_or_smaller_cutoff(rc, ncols, length_of(it.x))
            except (TypeError, ValueError, AnalysisError):
                rc_ok = False
            ctx.check(rc_ok, f"{method}: least squares keeps the full column rank (rcond at machine precision)", w,
                      expected="rcond omitted, None, -1, or at most numpy's own default eps * max(M, N)", found=f"rcond = {rc}",
                      explanation=f"method {method!r}: numpy.linalg.lstsq is given rcond = {rc}; singular directions of the ln V Vandermonde "
                                  f"matrix below that cut-off are dropped, so data that are polynomial in ln V of the chosen order (and, at "
                                  f"orders 4-5, even pure power laws) are no longer reproduced exactly", key=f"{method}.rcond")
        # R11.8 extrapolation
        ctx.begin_rule("R11.8", RULE_TEXT["R11.8"])
        noext = [(k, str(x)) for (i2, k, x, ext) in reg.evals if i2 is it and not ext]
        ctx.check(not noext, f"{method}: evaluates beyond the node range without NaN", w,
                  expected="extrapolating interpolant (default, attribute or keyword)", found=f"non-extrapolating evaluations: {noext}" if noext else
                  f"{it.cls or it.kind}: extrapolates",
                  explanation=f"method {method!r}: {it.cls} does not extrapolate by default, so every value outside the sampled "
                              f"volumes (the grid is expanded by volume_ratio) is NaN", key=f"{method}:{it.cls or it.kind}:no-extrapolation")
        ctx.begin_rule("R11.1-3", RULE_TEXT["R11.1-3"])
    ctx.floor("interpolation methods folded", len(HELPERS), 7)


def _inside_log(expr, sym):
    """every occurrence of sym sits inside exactly one log()"""
    logs = [l for l in expr.atoms(sp.log) if l.has(sym)]
    if not logs:
        return False
    stripped = expr
    for l in logs:
        stripped = stripped.subs(l, sp.Symbol("L"))
    return not stripped.has(sym)


def r_loop(ctx, model):
    """interpolate_modes folded for every schema-valid method on a 2 q-point x 4 mode table: every non-acoustic (q, m) cell of the
    three outputs is the matching element of the helper applied to the frequencies of that very (q, m); Gamma acoustic cells stay 0"""
    from ..facts import fold_interpolate_modes
    from ..sym import ArrV
    schema = json.loads((REPO / "cij" / "data" / "schema" / "config.schema.json").read_text())
    try:
        enum = schema["definitions"]["elast_settings"]["properties"]["mode_gamma"]["properties"]["interpolator"]["enum"]
    except KeyError:
        raise AnalysisError("schema: mode_gamma.interpolator.enum not found")
    ref = f"{MG}:interpolate_modes"
    f = model.func(ref)
    w = model.where(ref, f)
    from ..sym import DataDependentBranch
    try:
        roles, _ = interpolate_modes_roles(model)
    except DataDependentBranch as e:
        ctx.violation("loop.data-dependent", w, "which modes are interpolated depends on their (q, mode) position only",
                      f"{e.reason} at {e.where}", "whether a mode is interpolated (or left at zero) depends on the tabulated frequencies, not on its "
                      "position: Gamma acoustic modes are not reliably left at zero / other modes may be skipped", instance="spline: folded")
        return
    ctx.check(roles == [0, 1, 2], "returns (omega, gamma, V dgamma/dV) in helper order", w, expected="[0, 1, 2]", found=str(roles),
              explanation="interpolate_modes returns its three arrays in an order different from the one its helpers fill", key="loop.return")
    for method in enum:
        from ..sym import DataDependentBranch
        try:
            out, calls, (MVs, VAs, ORDs) = fold_interpolate_modes(model, method, ctx=ctx)
        except DataDependentBranch as e:
            ctx.violation(f"loop.{method}.data-dependent", w, "which modes are interpolated depends on their (q, mode) position only",
                          f"{e.reason} at {e.where}", f"method {method!r}: whether a mode is interpolated (or left at zero) depends on the tabulated "
                          f"frequencies, not on its position: Gamma acoustic modes are not reliably left at zero / other modes may be skipped",
                          instance=f"{method}: folded")
            continue
        except RaisedV as e:
            ctx.violation(f"loop.{method}.raises", w, "the method is dispatched", f"raises {e.exc_name}", f"interpolate_modes raises {e.exc_name} for the schema-valid method {method!r}",
                          instance=f"{method}: folded")
            continue
        want_helper = HELPERS.get(method)
        bad = []
        if not (isinstance(out, Tup) and len(out.items) == 3 and all(isinstance(x, ArrV) and x.shape == (2, 4) for x in out.items)):
            bad.append("does not return three (ntv, nq, np) arrays")
        else:
            for pos, arr in enumerate(out.items):
                for j in range(2):
                    for k in range(4):
                        cell = sp.sympify(arr.get((j, k)))
                        if j == 0 and k < 3:
                            if cell != 0:
                                bad.append(f"Gamma acoustic cell ({j},{k}) of output {pos} = {str(cell)[:60]}")
                            continue
                        tag = f"{want_helper}[{method}]" if want_helper == "interpolate_mode_ppoly" else want_helper
                        want = sp.Function(f"OUT{roles[pos]}_{tag}")(MVs, sp.Symbol(f"FR_{j}_{k}", positive=True), VAs, ORDs)
                        if cell != want:
                            bad.append(f"output {pos} at (q={j}, m={k}) = {str(cell)[:90]}")
        ctx.check(not bad, f"{method}: every non-acoustic (q, m) cell = its own helper result; Gamma acoustic cells stay 0", w,
                  expected=f"X[:, j, k] = {want_helper}(mode_volumes, freqs[j][k], v_array, order) element-wise by role; X[:, 0, 0:3] = 0",
                  found="; ".join(bad[:3]) or "as required",
                  explanation=f"method {method!r}: an output cell is left at zero (name not dispatched), filled from another (q, m), from another "
                              f"helper, or a Gamma acoustic mode is interpolated", key=f"loop.{method}")
    ctx.floor("schema-valid interpolation methods folded", len(enum), 5)


def r_dispatch(ctx, model):
    import yaml
    from ..facts import fold_interpolate_modes
    w = model.where(f"{MG}:interpolate_modes")
    dflt = yaml.safe_load((REPO / "cij" / "data" / "default" / "settings.yaml").read_text())
    dm = dflt["elast"]["settings"]["mode_gamma"]["interpolator"]
    out, calls, _ = fold_interpolate_modes(model, dm, ctx=ctx)
    ctx.check(len(calls) == 5, "default interpolator is dispatched", Where("cij/data/default/settings.yaml", "mode_gamma.interpolator", 0),
              expected="5 helper calls on the 2 x 4 table", found=f"{dm}: {len(calls)} helper calls", explanation="the packaged default names an interpolator that is not handled",
              key="dispatch.default")
    # names sent to interpolate_mode_ppoly = names it selects a class for (else UnboundLocalError): decided by folding it (R11.1-3 / R11.8)
    # consumer passes (qha_input, v_array, configured interpolator, configured order)
    seeds, intr, calc = physics_seeds(model)
    cap = {}

    def im(ev, a, k):
        cap["a"], cap["k"] = a, k
        return Tup([sp.Symbol("R0"), sp.Symbol("R1"), sp.Symbol("R2")])

    intr["cij.core.mode_gamma:interpolate_modes"] = im
    ev = Ev(model, seeds, intr, ctx=ctx)
    cf = model.func(f"{CALC}._interpolate_modes")
    ev.call_def(cf, model.mods["cij.core.calculator"], f"{CALC}._interpolate_modes", [calc], {})
    from ..facts import V
    a, k = cap.get("a", []), cap.get("k", {})
    names_ = [x.arg for x in model.func(f"{MG}:interpolate_modes").args.args]
    b = dict(zip(names_, a))
    b.update(k)
    norm = lambda o: getattr(o, "name", str(o)).replace('"', "'")
    ok = (norm(b.get("qha_input")) == "qha_input" and is_sym(b.get("v_array")) and sp.simplify(b["v_array"] - V / U.bohr ** 3) == 0
          and norm(b.get("method")) == "config['elast']['settings']['mode_gamma']['interpolator']"
          and norm(b.get("order")) == "config['elast']['settings']['mode_gamma']['order']")
    ctx.check(ok, "Calculator passes (qha_input, v_array, configured interpolator, configured order)", model.where(f"{CALC}._interpolate_modes", cf),
              expected="interpolate_modes(qha_input, qha v_array, method=config..interpolator, order=config..order)",
              found=str({kk: norm(v) for kk, v in b.items()})[:300],
              explanation="the configured interpolator/order or the volume grid is not what interpolate_modes receives", key="dispatch.consumer")


def r_plot(ctx, model):
    """plot_modes folded on a small concrete (q, m) table - 2 q-points x 5 modes, every cell its own atom - for n = 0, 1, 2 and both
    q-points: the curves handed to ax.plot are exactly the non-acoustic modes' curves of the quantity selected by n, each once (in any
    order), against the volume grid"""
    from ..sym import ArrV, Tup
    seeds, intr, calc = physics_seeds(model)
    NQ_, NP_ = 2, 5
    calc.attrs["np"], calc.attrs["nq"] = sp.Integer(NP_), sp.Integer(NQ_)
    roles, _ = interpolate_modes_roles(model)
    names = {0: "omega", 1: "gamma", 2: "V dgamma/dV"}

    def table(tag):
        a = ArrV(1, (NQ_, NP_))
        for q in range(NQ_):
            for m in range(NP_):
                a.cells[(q, m)] = sp.Symbol(f"{tag}_{q}_{m}", real=True)
        return a
    tabs = {0: table("OMEGA"), 1: table("GAMMA"), 2: table("VDGDV")}
    intr["cij.core.mode_gamma:interpolate_modes"] = lambda ev, a, k: Tup([tabs[r] for r in roles])
    plotted = []

    class Ax:
        def sym_getattr(self, ev, name, node, mod):
            from ..sym import BoundLib
            return BoundLib(f"ax.{name}", self)

    intr["ax.plot"] = lambda ev, a, k: plotted.append(("plot", a[1:])) or None
    intr["ax.scatter"] = lambda ev, a, k: plotted.append(("scatter", a[1:])) or None
    calc.attrs["qha_input"] = Opaque("qha_input")
    ref = "cij.plot.modes:ModePlotter.plot_modes"
    f = model.func(ref)
    w = model.where(ref, f)
    for n in (0, 1, 2):
        for iq in (0, 1):
            del plotted[:]
            ev = Ev(model, seeds, intr, ctx=ctx)
            ev.seeds[("cij.plot.modes:ModePlotter", "volumes")] = sp.Symbol("PLOTVOLS")
            plotter = Obj("cij.plot.modes:ModePlotter", {"calculator": calc})
            try:
                ev.call_def(f, model.mods["cij.plot.modes"], ref, [plotter, Ax(), sp.Integer(n), sp.Integer(iq)], {})
            except AnalysisError as e:
                # the scatter of the input frequencies (n = 0 only, after the curves) reads the phonon file: not part of this clause
                if n != 0 or not any(kind == "plot" for kind, _ in plotted) or "iteration over a non-constant" not in e.reason:
                    raise
            lines = [a for kind, a in plotted if kind == "plot"]
            want = sorted(sp.srepr(tabs[n].get((iq, m))) for m in range(NP_) if not (iq == 0 and m < 3))
            got = sorted(sp.srepr(sp.sympify(as_sym(a[1]))) for a in lines)
            xs = {sp.srepr(sp.sympify(as_sym(a[0]))) for a in lines}
            ok = got == want and len(xs) == 1
            ctx.check(ok, f"plot_modes n={n} iq={iq} draws {names[n]} of each of the {len(want)} non-acoustic modes once", w,
                      expected=f"{len(want)} curves: {names[n]}[q={iq}, m] for the non-acoustic m, against the volume grid",
                      found=f"{len(lines)} curves: {[str(as_sym(a[1]))[:40] for a in lines][:5]}",
                      explanation=f"the diagnostic plot for n={n} does not draw {names[n]} of every non-acoustic mode of the q-point exactly once (a curve that is no single "
                                  f"mode's curve, a Gamma acoustic mode, another quantity or another q-point is drawn)", key=f"plot.n{n}")


RULE_TEXT = {
    "R11.1-3": "each method folds to (exp f(x), -f'(x), -f''(x)) of one interpolant at x = log(v_array); nodes (log V, log omega) under one transform",
    "R11.8": "every reachable interpolator class is constructible and extrapolates (installed scipy sources)",
}
RULES = [
    ("R11.1-3", RULE_TEXT["R11.1-3"], r_helpers),
    ("R11.9", "node selection on concrete volume counts 2..16 x orders 1..12: distinct, paired, increasing ln V, no exception", r_node_selection),
    ("R11.4-5", "interpolate_modes folded for every schema-valid method: (q, m) wiring, routing, Gamma skip, zero init, return order", r_loop),
    ("R11.6", "default interpolator dispatched; consumer wiring", r_dispatch),
    ("R11.7", "plot_modes draws omega / gamma / V dgamma/dV for n = 0 / 1 / 2", r_plot),
]
