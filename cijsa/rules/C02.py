"""C02 — adiabatic - isothermal = T V (dP/dT)^2 / (9 e_i e_j C_V); zero for shear and at T = 0."""
from __future__ import annotations

import ast

import sympy as sp

from .. import units as U
from ..anf import bose, compare, short, is_zero
from ..facts import (physics_seeds, qha_attr_hook, LONG, OFFD, FREQ, GAMMA, VDR, T, V, E0, E1, NAT, E, CV, QPHYS,
                     MODE_DEP, QVOL)
from ..model import dotted_name, src, body_wo_doc, is_logging_stmt
from ..report import AnalysisError
from ..sym import Ev, Obj, AVG, as_sym
from .C01 import reference, check_t0_mask, AU

SHEAR = "cij.core.phonon_contribution.shear:ShearElasticModulusPhononContribution"
TASKLIST = "cij.core.tasks:PhononContributionTaskList"
TASK = "cij.core.tasks:PhononContributionTask"

LEVEL = "other"
EXPLANATION = (
    "Static analysis decides: the adiabatic-isothermal gap of both non-shear classes equals "
    "T*V*(dP_ph/dT)^2/(9 e_i e_j C_V) as an exact normal form (dP_ph/dT derived by differentiating the per-mode "
    "pressure of the property statement; C_V bound to qha's volumetric heat capacity on the (T,V) grid); "
    "adiabatic = isothermal + gap; gap rows masked at T = 0; the shear class returns its isothermal value as the "
    "adiabatic one and the task list feeds shear tasks from the isothermal store only.")
NOT_DECIDED = "the value of C_V (qha), numerical equality, positivity of C_V."
ASSUMPTIONS = ["T-LIB: qha cv_tv_au is the volumetric heat capacity on the (T,V) grid in Ry/K per cell",
               "see C01 (shared formula engine and seeds)"]


def make_ev(ctx, model):
    seeds, intr, calc = physics_seeds(model)
    return Ev(model, seeds, intr, attr_hook=qha_attr_hook, ctx=ctx)


def norm(x):
    return bose(sp.sympify(as_sym(x)), QPHYS, E)


def r_gap(ctx, model):
    ref = reference()
    dpdt = sp.diff(ref["P_th"], T)          # per-mode d p / d T at fixed V (zero-point part has no T)
    want = T * V * (3 * NAT * AVG(dpdt / (3 * E0))) * (3 * NAT * AVG(dpdt / (3 * E1))) / CV / AU
    want = bose(want, QPHYS, E)
    ev = make_ev(ctx, model)
    for kind, cref in (("long", LONG), ("offd", OFFD)):
        owner, f, _ = model.find_member(cref, "isothermal_to_adiabatic")
        if f is None:
            raise AnalysisError(f"anchor vanished: {cref}.isothermal_to_adiabatic")
        w = model.where(f"{owner}.isothermal_to_adiabatic", f)
        got = norm(ev.get_attr(Obj(cref), "isothermal_to_adiabatic"))
        wantk = want
        if kind == "long":      # both strain fractions of a longitudinal task are the same e_i (R04.5)
            got, wantk = got.subs(E1, E0), want.subs(E1, E0)
        same, why = compare(got, wantk, MODE_DEP)
        ctx.check(same, f"{kind}.isothermal_to_adiabatic", w,
                  expected="T*V*(3*NAT*AVG[dp/dT])^2/(9*E0*E1*CV) / (Ry/bohr^3)",
                  found=short(got)[:400] if not same else "equal to the reference",
                  explanation=f"adiabatic-isothermal gap of the {kind} class is not T V (dP/dT)^2/(9 e_i e_j C_V): {why}",
                  key=f"{kind}.isothermal_to_adiabatic")
        v = ev.get_attr(Obj(cref), "isothermal_to_adiabatic")
        ok, found = check_t0_mask(v)
        ctx.check(ok, f"{kind}.isothermal_to_adiabatic T=0 rows", w, expected="rows t_array == 0 set to 0",
                  found=found, explanation="the gap is not zeroed on the T = 0 rows (0/0 there)",
                  key=f"{kind}.isothermal_to_adiabatic.t0mask")
        o2, f2, _ = model.find_member(cref, "value_adiabatic")
        if f2 is None:
            raise AnalysisError(f"anchor vanished: {cref}.value_adiabatic")
        ad = norm(ev.get_attr(Obj(cref), "value_adiabatic"))
        iso = norm(ev.get_attr(Obj(cref), "value_isothermal"))
        if kind == "long":
            ad, iso = ad.subs(E1, E0), iso.subs(E1, E0)
        same, why = compare(ad - iso, got, MODE_DEP)
        ctx.check(same, f"{kind}.value_adiabatic", model.where(f"{o2}.value_adiabatic", f2),
                  expected="value_isothermal + isothermal_to_adiabatic", found=short(ad - iso - got)[:300],
                  explanation=f"adiabatic value of the {kind} class is not isothermal + gap: {why}", key=f"{kind}.value_adiabatic")


def r_cv(ctx, model):
    """heat capacity is qha's cv_tv_au (grid (T,V), atomic units)"""
    owner, f, _ = model.find_member(QVOL, "heat_capacity")
    if f is None:
        raise AnalysisError("anchor vanished: QHAVolumeBaseInterface.heat_capacity")
    ev = make_ev(ctx, model)
    vol = ev.get_attr(ev.get_attr(ev.seeds[(LONG, "calculator")], "qha_calculator"), "volume_base")
    got = as_sym(ev.get_attr(vol, "heat_capacity"))
    want = CV / (U.Ry / U.K)
    ctx.check(is_zero(got - want), "heat_capacity -> cv_tv_au", model.where(f"{QVOL}.heat_capacity", f),
              expected="qha cv_tv_au (C_V(T,V) in Ry/K)", found=str(got),
              explanation="the volume-base heat capacity must be qha's volumetric heat capacity on the (T,V) grid in "
                          "atomic units (cv_tv_au); another field changes the gap", key="heat_capacity")


def r_shear(ctx, model):
    owner, f, kind = model.find_member(SHEAR, "value_adiabatic")
    if f is None:
        raise AnalysisError("anchor vanished: Shear...value_adiabatic")
    ctx.fn(f"{SHEAR}.value_adiabatic")
    body = [s for s in body_wo_doc(f) if not is_logging_stmt(s)]
    ok = len(body) == 1 and isinstance(body[0], ast.Return) and src(body[0].value) == f"{f.args.args[0].arg}.value_isothermal"
    ctx.check(ok, "shear value_adiabatic is value_isothermal", model.where(f"{SHEAR}.value_adiabatic", f),
              expected="return self.value_isothermal", found="; ".join(src(s) for s in body)[:200],
              explanation="for components with a Voigt index 4-6 adiabatic and isothermal values must be identical",
              key="shear.value_adiabatic")
    # tasks.calculate: shear inputs come from the isothermal store only
    ref = f"{TASKLIST}.calculate"
    c = model.func(ref)
    ctx.fn(ref)
    selfn = c.args.args[0].arg
    n = 0
    for st in ast.walk(c):
        if isinstance(st, ast.Assign) and len(st.targets) == 1 and isinstance(st.targets[0], ast.Attribute) \
                and st.targets[0].attr in ("modulus_results", "modulus_results_rotated"):
            n += 1
            stores = {x.attr for x in ast.walk(st.value) if isinstance(x, ast.Attribute) and isinstance(x.value, ast.Name)
                      and x.value.id == selfn and x.attr.startswith("modulus_")}
            ctx.check(stores == {"modulus_isothermal_values"}, f"task.{st.targets[0].attr} source", model.where(ref, st),
                      expected="self.modulus_isothermal_values only", found=str(sorted(stores)),
                      explanation="a shear task's known components must come from the isothermal store; feeding the "
                                  "adiabatic store makes shear adiabatic != isothermal", key=f"calculate.{st.targets[0].attr}")
    ctx.floor("assignments of shear inputs in calculate", n, 2)
    # both getters of the task assign the same two dictionaries
    for g in ("get_modulus_isothermal", "get_modulus_adiabatic"):
        gref = f"{TASK}.{g}"
        gf = model.func(gref)
        ctx.fn(gref)
        sn = gf.args.args[0].arg
        pairs = {}
        for st in ast.walk(gf):
            if isinstance(st, ast.Assign) and isinstance(st.targets[0], ast.Attribute) and src(st.targets[0].value) == f"{sn}.calculator":
                pairs[st.targets[0].attr] = src(st.value)
        if set(pairs) != {"modulus", "modulus_rotated"}:
            raise AnalysisError(f"{g}: the stores calculator.modulus / calculator.modulus_rotated were not found")
        ctx.check(pairs == {"modulus": f"{sn}.modulus_results", "modulus_rotated": f"{sn}.modulus_results_rotated"},
                  f"{g} feeds modulus/modulus_rotated", model.where(gref, gf),
                  expected="calculator.modulus = self.modulus_results; calculator.modulus_rotated = self.modulus_results_rotated",
                  found=str(pairs), explanation="the shear solver's two lookup tables are not fed from the task's "
                                                "original-frame and rotated-frame results respectively", key=f"{g}.feed")


RULES = [
    ("R02.1-3", "gap = T V (dP/dT)^2/(9 e_i e_j C_V) (normal form), adiabatic = isothermal + gap, gap masked at T = 0", r_gap),
    ("R02.5", "shear adiabatic is the isothermal attribute; shear tasks are fed from the isothermal store only", r_shear),
    ("R02.6", "C_V is qha's volumetric heat capacity cv_tv_au", r_cv),
]
