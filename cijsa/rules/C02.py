"""C02 — adiabatic - isothermal = T V (dP/dT)^2 / (9 e_i e_j C_V); zero for shear and at T = 0."""
from __future__ import annotations

import ast

import sympy as sp

from .. import units as U
from ..anf import bose, compare, short, is_zero
from ..facts import (physics_seeds, qha_attr_hook, LONG, OFFD, FREQ, GAMMA, VDR, T, V, E0, E1, NAT, E, CV, QPHYS,
                     MODE_DEP, QVOL)
from ..model import dotted_name, src, body_wo_doc, is_logging_stmt
from ..report import AnalysisError
from ..sym import Ev, Obj, AVG, as_sym, RaisedV
from .C01 import reference, check_t0_mask, AU

SHEAR = "cij.core.phonon_contribution.shear:ShearElasticModulusPhononContribution"
TASKLIST = "cij.core.tasks:PhononContributionTaskList"
TASK = "cij.core.tasks:PhononContributionTask"

LEVEL = "other"
EXPLANATION = (
    "Static analysis decides: the adiabatic-isothermal gap of both non-shear classes equals "
    "T*V*(dP_ph/dT)^2/(9 e_i e_j C_V) as an exact normal form (dP_ph/dT derived by differentiating the per-mode "
    "pressure of the property statement; C_V bound to qha's volumetric heat capacity on the (T,V) grid); "
    "adiabatic = isothermal + gap; gap rows masked at T = 0; the shear class returns its isothermal value as the "
    "adiabatic one and the task list feeds shear tasks from the isothermal store only. The gap is also folded cell by cell on a "
    "2 x 4 (q, m) grid with symbolic weights through the real reduction code (R02.7): both mode sums weight-normalised and Gamma-masked.")
NOT_DECIDED = "the value of C_V (qha), numerical equality, positivity of C_V."
ASSUMPTIONS = ["T-LIB: qha cv_tv_au is the volumetric heat capacity on the (T,V) grid in Ry/K per cell",
               "see C01 (shared formula engine and seeds)"]


def make_ev(ctx, model):
    seeds, intr, calc = physics_seeds(model)
    return Ev(model, seeds, intr, attr_hook=qha_attr_hook, ctx=ctx)


def drop_subnormal_floor(e):
    """max(x, c) with 0 <= c < 1e-300 (below every normal double): equal to x wherever x is positive - and the property speaks of the heat
    capacity only where it is positive.  A floor at a physical magnitude (1e-8 Ry/K is the C_V of a few kelvin) stays in the expression."""
    e = sp.sympify(e)

    def is_floor(t):
        return getattr(t.func, "__name__", "") == "MAXIMUM" and len(t.args) == 2 and any(a.is_number and 0 <= a < sp.Float("1e-300") for a in t.args)
    return e.replace(is_floor, lambda t: next(a for a in t.args if not (a.is_number and 0 <= a < sp.Float("1e-300"))))


def norm(x):
    return bose(drop_subnormal_floor(as_sym(x)), QPHYS, E)


def r_gap(ctx, model):
    ref = reference()
    dpdt = sp.diff(ref["P_th"], T)          # per-mode d p / d T at fixed V (zero-point part has no T)
    want = T * V * (3 * NAT * AVG(dpdt / (3 * E0))) * (3 * NAT * AVG(dpdt / (3 * E1))) / CV / AU
    want = bose(want, QPHYS, E)
    ev = make_ev(ctx, model)
    for kind, cref in (("long", LONG), ("offd", OFFD)):
        owner, f, _ = model.find_member(cref, "isothermal_to_adiabatic")
        if f is None:
            raise AnalysisError(f"anchor vanished: {cref}.isothermal_to_adiabatic")
        w = model.where(f"{owner}.isothermal_to_adiabatic", f)
        try:
            got = norm(ev.get_attr(Obj(cref), "isothermal_to_adiabatic"))
        except RaisedV:
            raise
        except AnalysisError as e:
            # a formulation that does not reduce through average_over_modes cannot be read on the AVG basis; the cell-by-cell fold
            # R02.7 decides the same identity (same reference) through whatever code performs the reduction
            ctx.assume(f"R02.1-3 {kind}: the AVG-basis normal form is not available for this formulation ({e.reason[:120]}); the gap is decided cell by cell by R02.7")
            continue
        wantk = want
        if kind == "long":      # both strain fractions of a longitudinal task are the same e_i (R04.5)
            got, wantk = got.subs(E1, E0), want.subs(E1, E0)
        same, why = compare(got, wantk, MODE_DEP)
        ctx.check(same, f"{kind}.isothermal_to_adiabatic", w,
                  expected="T*V*(3*NAT*AVG[dp/dT])^2/(9*E0*E1*CV) / (Ry/bohr^3)",
                  found=short(got)[:400] if not same else "equal to the reference",
                  explanation=f"adiabatic-isothermal gap of the {kind} class is not T V (dP/dT)^2/(9 e_i e_j C_V): {why}",
                  key=f"{kind}.isothermal_to_adiabatic")
        v = ev.get_attr(Obj(cref), "isothermal_to_adiabatic")
        ok, found = check_t0_mask(v)
        ctx.check(ok, f"{kind}.isothermal_to_adiabatic T=0 rows", w, expected="rows t_array == 0 set to 0",
                  found=found, explanation="the gap is not zeroed on the T = 0 rows (0/0 there)",
                  key=f"{kind}.isothermal_to_adiabatic.t0mask")
        o2, f2, _ = model.find_member(cref, "value_adiabatic")
        if f2 is None:
            raise AnalysisError(f"anchor vanished: {cref}.value_adiabatic")
        ad = norm(ev.get_attr(Obj(cref), "value_adiabatic"))
        iso = norm(ev.get_attr(Obj(cref), "value_isothermal"))
        if kind == "long":
            ad, iso = ad.subs(E1, E0), iso.subs(E1, E0)
        same, why = compare(ad - iso, got, MODE_DEP)
        ctx.check(same, f"{kind}.value_adiabatic", model.where(f"{o2}.value_adiabatic", f2),
                  expected="value_isothermal + isothermal_to_adiabatic", found=short(ad - iso - got)[:300],
                  explanation=f"adiabatic value of the {kind} class is not isothermal + gap: {why}", key=f"{kind}.value_adiabatic")


def r_gap_cells(ctx, model):
    """the gap folded cell by cell on a 2 x 4 (q, m) grid with the real reduction code (cijsa/cellfold.py): both mode averages are
    normalised by the sum of the weights and masked at Gamma, whatever code performs the reduction"""
    from ..cellfold import CellFold
    ref = reference()
    dpdt = sp.diff(ref["P_th"], T)
    cf = CellFold(ctx, model)
    for kind, cref in (("long", LONG), ("offd", OFFD)):
        owner, f, _ = model.find_member(cref, "isothermal_to_adiabatic")
        if f is None:
            raise AnalysisError(f"anchor vanished: {cref}.isothermal_to_adiabatic")
        w = model.where(f"{owner}.isothermal_to_adiabatic", f)
        got = cf.attr(cref, "isothermal_to_adiabatic")
        want = T * V * (3 * NAT * cf.avg(dpdt / (3 * E0))) * (3 * NAT * cf.avg(dpdt / (3 * E1))) / CV / AU
        bad = cf.differs(drop_subnormal_floor(as_sym(got)), want, pairs=True, same_strain=(kind == "long"))
        ctx.check(not bad, f"{kind}.isothermal_to_adiabatic cell by cell (2 q-points x 4 modes, symbolic weights)", w,
                  expected="T V/(9 e_i e_j C_V) (3 NAT)^2 avg[dp/dT] avg[dp/dT], avg = sum_q w_q/sum(w) 1/NP sum_m [not Gamma acoustic]",
                  found="differs in " + ", ".join(bad[:4]) if bad else "equal for every cell and cell pair",
                  explanation=f"the adiabatic-isothermal gap of the {kind} class, folded cell by cell, is not the product of two weight-normalised, Gamma-masked "
                              f"mode sums of dP/dT: differs in {', '.join(bad[:4])}", key=f"{kind}.isothermal_to_adiabatic.cells")
        ok, found = check_t0_mask(got)
        ctx.check(ok, f"{kind}.isothermal_to_adiabatic T=0 rows (cell fold)", w, expected="rows t_array == 0 set to 0", found=found,
                  explanation="the gap is not zeroed on the T = 0 rows (0/0 there)", key=f"{kind}.isothermal_to_adiabatic.cells.t0mask")
        o2, f2, _ = model.find_member(cref, "value_adiabatic")
        if f2 is None:
            raise AnalysisError(f"anchor vanished: {cref}.value_adiabatic")
        d = drop_subnormal_floor(as_sym(cf.attr(cref, "value_adiabatic")) - as_sym(cf.attr(cref, "value_isothermal")) - as_sym(got))
        badv = cf.differs(d, sp.Integer(0), pairs=True, same_strain=(kind == "long"))
        ctx.check(not badv, f"{kind}.value_adiabatic = value_isothermal + gap (cell fold)", model.where(f"{o2}.value_adiabatic", f2), expected="value_isothermal + isothermal_to_adiabatic",
                  found="differs in " + ", ".join(badv[:4]) if badv else "equal", explanation=f"adiabatic value of the {kind} class is not isothermal + gap (cell by cell)",
                  key=f"{kind}.value_adiabatic.cells")
    ctx.call_sites += cf.ev.call_sites


def r_cv(ctx, model):
    """heat capacity is qha's cv_tv_au (grid (T,V), atomic units)"""
    owner, f, _ = model.find_member(QVOL, "heat_capacity")
    if f is None:
        raise AnalysisError("anchor vanished: QHAVolumeBaseInterface.heat_capacity")
    from ..facts import qha_settings, QHA_EXT
    want = CV / (U.Ry / U.K)
    for unit in ("ry", "ev"):         # the values qha accepts for its energy_unit option (installed qha.statmech / qha.settings)
        ev = make_ev(ctx, model)
        ev.seeds[(QHA_EXT, "settings")] = qha_settings(energy_unit=unit)
        vol = ev.get_attr(ev.get_attr(ev.seeds[(LONG, "calculator")], "qha_calculator"), "volume_base")
        got = drop_subnormal_floor(as_sym(ev.get_attr(vol, "heat_capacity")))
        ctx.check(is_zero(got - want), f"heat_capacity -> cv_tv_au (qha energy_unit = {unit!r})", model.where(f"{QVOL}.heat_capacity", f),
                  expected="qha cv_tv_au (C_V(T,V) in Ry/K)", found=str(got),
                  explanation="the volume-base heat capacity must be qha's volumetric heat capacity on the (T,V) grid in "
                              "atomic units (cv_tv_au) whatever the qha settings; another field or unit changes the gap", key=f"heat_capacity.{unit}")


def r_shear(ctx, model):
    """the whole task list is folded (as in C04) for all 21 components with the longitudinal/off-diagonal classes replaced by
    one isothermal and one adiabatic atom per (class, strain fractions): for every key with a Voigt index 4-6 the expression
    that lands in the adiabatic result is identical to the one in the isothermal result (so it contains no adiabatic atom: the
    solver's inputs come from the isothermal store), whichever way value_adiabatic / the getters / calculate are written"""
    from .C04 import fold, canon, same_expr, PHAD
    from ..facts import KEYS21
    from ..sym import RaisedV
    w = model.where(f"{SHEAR}.value_adiabatic")
    for name in (f"{SHEAR}.value_adiabatic", f"{TASKLIST}.calculate", f"{TASK}.get_modulus_isothermal", f"{TASK}.get_modulus_adiabatic"):
        ctx.fn(name)
    n = 0
    for rev in (False, True):
        try:
            ev, tl, g, iso, ad, e = fold(ctx, model, list(KEYS21), rev)
        except RaisedV as ex:
            raise AnalysisError(f"assembling the 21 components raises {ex.exc_name} at {ex.where} (property C04 reports it)")
        isod = {k.name: v for k, v in iso.d.items()}
        add = {k.name: v for k, v in ad.d.items()}
        for key in KEYS21:
            if int(key[1]) <= 3 and int(key[2]) <= 3:
                continue
            if key not in isod or key not in add:
                raise AnalysisError(f"{key} receives no value (property C04 reports it)")
            n += 1
            a, i_ = canon(add[key]), canon(isod[key])
            same = same_expr(a, i_)
            has_ad = any(isinstance(x, PHAD) for x in sp.preorder_traversal(a))
            iso_ad = any(isinstance(x, PHAD) for x in sp.preorder_traversal(i_))
            ctx.check(not has_ad and not iso_ad, f"{key} ({'last' if rev else 'first'}-ready order): built from isothermal dependencies only", model.where(f"{TASKLIST}.calculate"),
                      expected="no adiabatic longitudinal/off-diagonal value enters a shear component",
                      found=f"adiabatic inputs in the {'adiabatic' if has_ad else ''}{' and ' if has_ad and iso_ad else ''}{'isothermal' if iso_ad else ''} result" if has_ad or iso_ad else "none",
                      explanation=f"{key}: the shear solver receives adiabatic dependencies, so the adiabatic-isothermal gap of the longitudinal/off-diagonal "
                                  f"components leaks into a component whose gap must be zero", key=f"shear.{key}.{rev}.inputs")
            ctx.check(same, f"{key} ({'last' if rev else 'first'}-ready order): adiabatic result = isothermal result", w,
                      expected="the same expression in both result stores (isothermal inputs only)",
                      found="identical" if same else ("the adiabatic result is built from adiabatic inputs" if has_ad else short(a - i_, 200)),
                      explanation=f"for {key} (a Voigt index 4-6) the adiabatic and isothermal phonon contributions differ: the shear solver is fed "
                                  f"from the adiabatic store or value_adiabatic is not value_isothermal", key=f"shear.{key}.{rev}")
    ctx.floor("shear components compared in both stores", n, 30)
    ctx.exhaustive = True


RULES = [
    ("R02.1-3", "gap = T V (dP/dT)^2/(9 e_i e_j C_V) (normal form), adiabatic = isothermal + gap, gap masked at T = 0", r_gap),
    ("R02.7", "the gap folded cell by cell on a 2 x 4 (q, m) grid through the real reduction code: weights normalised in both averages", r_gap_cells),
    ("R02.5", "task list folded for all 21 components: every shear component's adiabatic result is the same expression as its isothermal result", r_shear),
    ("R02.6", "C_V is qha's volumetric heat capacity cv_tv_au", r_cv),
]
