"""C16 — effective configuration = user settings over packaged defaults; invalid rejected."""
from __future__ import annotations

import ast
import copy
import json

import sympy as sp
import yaml

from ..fillmodel import PathV, FileV
from ..model import dotted_name, src
from ..report import AnalysisError, REPO, Where
from ..fsmodel import FS, FileV as FileV2, TextOf
from ..sym import Ev, DictV, Tup, RaisedV, BoundLib, hkey, is_sym, open_kw, yaml_kw

CFG = "cij.io.config.config"
LEVEL = "other"
TECHNIQUE = "static analysis: decision table of the merge by partial evaluation on marker dictionaries, purity, loader dispatch / validation must-pass-through, schema and shipped files as data"
EXPLANATION = (
    "Static analysis decides: update_config folded on marker dictionaries gives, per key, default[k] iff k is not in the "
    "input, input[k] iff k is not in the defaults or input[k] is not a dict, and the recursive merge otherwise, over the "
    "union of both key sets, returning a fresh dict and leaving both arguments unmodified (idempotence follows); "
    "read_config dispatches .yml/.yaml to YAML and .json to JSON, refuses other suffixes, and with validate=True reaches "
    "validate_config on every path; apply_default_config merges (input, packaged default) in that order; validate_config "
    "validates against the packaged schema; the schema (as data) carries the documented constraints and enums and the "
    "shipped default/example files validate against it (jsonschema run on data files only).")
NOT_DECIDED = "equivalence of the YAML and JSON parsers on the same document; behaviour of jsonschema itself."
ASSUMPTIONS = ["jsonschema.validate and the yaml/json loaders behave as documented (trusted libraries)"]


def marker(d):
    """python nested dict -> DictV with marker leaves"""
    out = DictV()
    for k, v in d.items():
        if isinstance(v, dict):
            out.d[k] = marker(v)
        elif isinstance(v, list):
            out.d[k] = Tup([x for x in v], "list")
        elif isinstance(v, (int, float)) and not isinstance(v, bool):
            out.d[k] = sp.nsimplify(v, rational=True)
        else:
            out.d[k] = v          # strings, booleans, None: constants of the folder
    return out


def unmark(v):
    if isinstance(v, DictV):
        return {k: unmark(x) for k, x in v.d.items()}
    if isinstance(v, Tup):
        return [unmark(x) for x in v.items]
    if is_sym(v):
        return int(v) if v.is_Integer else float(v)
    return v


def merge_ref(a, b):
    out = {}
    for k in set(a) | set(b):
        if k not in a:
            out[k] = b[k]
        elif k not in b or not isinstance(a[k], dict):
            out[k] = a[k]
        else:
            out[k] = merge_ref(a[k], b[k])
    return out


CASES = [
    ({}, {}), ({"a": "U1"}, {}), ({}, {"a": "D1"}), ({"a": "U1"}, {"a": "D1"}), ({"a": "U1"}, {"b": "D2"}),
    ({"a": {"b": "U1"}}, {"a": {"c": "D2"}}), ({"a": {"b": "U1"}}, {"a": {"b": "D1", "c": "D2"}}),
    ({"a": {"b": {"c": "U1"}}}, {"a": {"b": {"c": "D1", "d": "D2"}, "e": "D3"}, "f": "D4"}),
    ({"a": "U1"}, {"a": {"b": "D1"}}),       # user scalar over default dict: user wins
    ({"x": {"y": "U1"}, "z": "U2"}, {"x": {"y": "D1", "w": "D2"}, "z": "D3", "q": {"r": "D4"}}),
    # user values that are falsy in Python are still user values
    ({"a": 0, "b": False, "c": "", "d": [], "e": 0.0}, {"a": 5, "b": True, "c": "D", "d": ["x"], "e": 0.1, "f": "D6"}),
    ({"s": {"drop_atol": 0, "ignore_rank": False}}, {"s": {"drop_atol": 1e-8, "ignore_rank": True, "system": "triclinic"}}),
    ({"out": {"pressure_base": []}}, {"out": {"pressure_base": ["cij", "vs"], "volume_base": ["p"]}}),
    ({"n": None}, {"n": "D1", "m": None}),
    # the real nesting depth (elast -> settings -> symmetry -> leaf) and deeper: a partially given group at every level
    ({"elast": {"settings": {"symmetry": {"system": "U1"}}}},
     {"elast": {"settings": {"symmetry": {"system": "D1", "ignore_rank": "D2", "drop_atol": "D3"}, "mode_gamma": {"order": "D4"}}, "input": "D5"}, "qha": {"settings": {"NT": "D6"}}}),
    ({"l1": {"l2": {"l3": {"l4": {"l5": {"a": "U1"}}}}}}, {"l1": {"l2": {"l3": {"l4": {"l5": {"a": "D1", "b": "D2"}, "c": "D3"}, "d": "D4"}, "e": "D5"}, "f": "D6"}}),
    ({"l1": {"l2": {"l3": {"l4": {"l5": {"l6": {"l7": {"a": "U1"}}}}}}}}, {"l1": {"l2": {"l3": {"l4": {"l5": {"l6": {"l7": {"a": "D1", "b": "D2"}}}}}}}}),
]


def r_merge(ctx, model):
    ref = f"{CFG}:update_config"
    f = model.func(ref)
    w = model.where(ref, f)
    ev = Ev(model, ctx=ctx)
    bad, impure = [], []
    for a, b in CASES:
        A, B = marker(a), marker(b)
        out = ev.call_def(f, model.mods[CFG], ref, [A, B], {})
        got = unmark(out) if isinstance(out, DictV) else out
        want = merge_ref(a, b)
        want = json.loads(json.dumps(want))
        if got != want:
            bad.append(f"update_config({a}, {b}) -> {got} (want {want})")
        if unmark(A) != json.loads(json.dumps(a)) or unmark(B) != json.loads(json.dumps(b)) or out is A or out is B:
            impure.append(f"({a}, {b})")
    ctx.check(not bad, f"merge decision table ({len(CASES)} nested cases: absent/scalar/dict cells)", w,
              expected="user leaf kept; missing leaf from defaults; dicts merged recursively; no other keys", found="; ".join(bad[:3]) or "as required",
              explanation="the effective configuration loses a user value, misses a default, or merges nested sections wrongly", key="merge.table")
    ctx.check(not impure, "both arguments are left unmodified and a fresh dict is returned", w, expected="pure function", found="; ".join(impure[:3]) or "pure",
              explanation="update_config modifies one of its arguments (e.g. the packaged defaults) or returns one of them", key="merge.pure")
    # idempotence on the cases: merge(merge(a,b), b) == merge(a,b)
    bad = []
    for a, b in CASES:
        once = ev.call_def(f, model.mods[CFG], ref, [marker(a), marker(b)], {})
        twice = ev.call_def(f, model.mods[CFG], ref, [once, marker(b)], {})
        if unmark(once) != unmark(twice):
            bad.append(str((a, b)))
    ctx.check(not bad, "applying the defaults twice changes nothing", w, expected="idempotent", found="; ".join(bad[:3]) or "idempotent",
              explanation="the merge is not idempotent", key="merge.idempotent")


def r_loader(ctx, model):
    ref = f"{CFG}:read_config"
    f = model.func(ref)
    w = model.where(ref, f)
    results = {}
    _fs_of = {}
    for name in ("a/settings.yml", "settings.yaml", "conf.json", "conf.txt", "conf.YAML"):
        for validate in (True, False):
            log = []

            fs = FS(missing="opaque")
            intr = fs.intrinsics(arg_anchor="arg")

            def parser(kind, check=None):
                def f_(ev, a, k):
                    if check:
                        check(k)
                    else:
                        k.all()
                    src_ = a[0] if a else None
                    if not isinstance(src_, (FileV2, TextOf)):
                        raise AnalysisError(f"{kind} parser applied to something that is not the opened file / its text")
                    log.append((kind, ()))
                    log.append(("parsed", (src_.path if isinstance(src_, FileV2) else src_.file.path).text))
                    return DictV({"from": kind})
                return f_
            intr.update({
                "yaml.load": parser("yaml", yaml_kw), "yaml.safe_load": parser("yaml"), "yaml.full_load": parser("yaml"), "yaml.unsafe_load": parser("yaml"),
                "json.load": parser("json"), "json.loads": parser("json"),
                "cij.io.config.validate:validate_config": lambda ev, a, k: log.append(("validate", unmark(a[0]))) or None,
            })
            _fs_of[id(log)] = fs
            ev = Ev(model, {}, intr, ctx=ctx)
            try:
                out = ev.call_def(f, model.mods[CFG], ref, [name], {"validate": validate})
                results[(name, validate)] = ("ok", unmark(out) if isinstance(out, DictV) else out, log)
            except RaisedV as e:
                results[(name, validate)] = ("raise", e.exc_name, log)
    bad = []
    for (name, validate), (kind, out, log) in results.items():
        suffix = "." + name.rsplit(".", 1)[1]
        want_parser = {".yml": "yaml", ".yaml": "yaml", ".json": "json"}.get(suffix)
        if want_parser is None:
            if kind != "raise":
                bad.append(f"{name}: accepted (want refusal)")
            continue
        parsers = [l[0] for l in log if l[0] in ("yaml", "json")]
        vals = [l for l in log if l[0] == "validate"]
        if kind != "ok" or parsers != [want_parser] or out != {"from": want_parser}:
            bad.append(f"{name}: {kind} {out} parsers {parsers}")
        if validate and (len(vals) != 1 or vals[0][1] != {"from": want_parser}):
            bad.append(f"{name}: validate=True but validate_config calls = {vals}")
        if not validate and vals:
            bad.append(f"{name}: validate=False but validated")
        opened = [p_.text for p_ in _fs_of[id(log)].opened()]
        parsed = [l[1] for l in log if l[0] == "parsed"]
        if opened != [name] or parsed != [name]:
            bad.append(f"{name}: opened {opened}, parsed {parsed}")
    ctx.check(not bad, "read_config: suffix dispatch (.yml/.yaml -> YAML, .json -> JSON, else refuse), validation on every path when asked", w,
              expected="parser by suffix; validate_config(config) before returning iff validate", found="; ".join(bad[:4]) or f"{len(results)} scenarios as required",
              explanation="a configuration file is parsed by the wrong loader, an unsupported suffix is accepted, or validation is skipped", key="loader.table")


class PathS:
    def __init__(self, text):
        self.text = text

    def sym_getattr(self, ev, name, node, mod):
        import os
        if name == "suffix":
            return os.path.splitext(self.text)[1]
        if name == "parent":
            return PathS(os.path.dirname(self.text))
        raise ev.err(f"Path attribute {name}", node, mod)


def r_defaults(ctx, model):
    ref = f"{CFG}:apply_default_config"
    f = model.func(ref)
    w = model.where(ref, f)
    log = []
    default = {"qha": {"settings": {"DT": "D_DT", "NT": "D_NT"}}, "output": "D_OUT"}
    fs = FS(missing="opaque")
    intr = fs.intrinsics()

    def ymlparser(check=None):
        def f_(ev, a, k):
            check(k) if check else k.all()
            src_ = a[0] if a else None
            if not isinstance(src_, (FileV2, TextOf)):
                raise AnalysisError("YAML parser applied to something that is not the opened file / its text")
            log.append(src_.path if isinstance(src_, FileV2) else src_.file.path)
            return marker(default)
        return f_
    loaders = []

    def any_pyyaml_loader(k):
        """yaml.load(stream, Loader=<one of PyYAML's own loader classes>): which one is recorded, and what it makes of the packaged file is compared below"""
        v = k.get("Loader")
        name = getattr(v, "name", None)
        if name is None or not name.startswith("yaml.") or not hasattr(yaml, name.split(".", 1)[1]):
            raise AnalysisError(f"yaml.load with a loader this rule cannot name: {v!r}")
        loaders.append(name.split(".", 1)[1])
    intr.update({"yaml.load": ymlparser(any_pyyaml_loader), "yaml.safe_load": ymlparser(), "yaml.full_load": ymlparser()})
    ev = Ev(model, {}, intr, ctx=ctx)
    user = {"qha": {"settings": {"DT": "U_DT"}}, "elast": "U_EL"}
    out = ev.call_def(f, model.mods[CFG], ref, [marker(user)], {})
    # the packaged defaults as the loader in use reads them, against YAML's core schema (what safe_load / FullLoader give): BaseLoader, for one, types nothing
    text = (REPO / "cij" / "data" / "default" / "settings.yaml").read_text()
    typed = yaml.load(text, Loader=yaml.SafeLoader)
    for ln in loaders:
        got_ = yaml.load(text, Loader=getattr(yaml, ln))

        def first_diff(a_, b_, path=""):
            if isinstance(a_, dict) and isinstance(b_, dict):
                for kk in a_:
                    if kk not in b_:
                        return f"{path}/{kk} missing"
                    d_ = first_diff(a_[kk], b_[kk], f"{path}/{kk}")
                    if d_:
                        return d_
                return None
            return None if (a_ == b_ and type(a_) is type(b_)) else f"{path}: {b_!r} ({type(b_).__name__}) instead of {a_!r} ({type(a_).__name__})"
        diff = first_diff(typed, got_)
        ctx.check(diff is None, f"yaml.{ln} reads the packaged default/settings.yaml as YAML's core schema does (numbers as numbers, booleans as booleans)", w,
                  expected="every default leaf with the type it is written with", found=diff or "identical to safe_load",
                  explanation=f"the packaged defaults are parsed with yaml.{ln}, which does not type scalars as the YAML core schema does: a leaf the user leaves out is no longer the packaged default "
                              f"({diff}), and the effective configuration no longer validates", key=f"defaults.loader.{ln}")
    want = json.loads(json.dumps(merge_ref(user, default)))
    opened = [getattr(p, "text", p) for p in log if getattr(p, "anchor", None) == "packaged"] if len(log) == len(fs.opened()) else [f"{len(fs.opened())} opened, {len(log)} parsed"]
    ctx.check(isinstance(out, DictV) and unmark(out) == want and opened == ["default/settings.yaml"], "apply_default_config = update_config(user, packaged default/settings.yaml)", w,
              expected=str(want), found=f"{unmark(out) if isinstance(out, DictV) else out}; opened {opened}",
              explanation="defaults override user settings (argument order), or the defaults are not the packaged default/settings.yaml", key="defaults.order")
    # validate_config validates against the packaged schema
    vref = "cij.io.config.validate:validate_config"
    vf = model.func(vref)
    cap = {"validated": []}
    fs2 = FS(missing="opaque")
    intr2 = fs2.intrinsics()

    def load_schema(ev, a, k):
        k.all()
        src_ = a[0] if a else None
        if not isinstance(src_, (FileV2, TextOf)):
            raise AnalysisError("JSON parser applied to something that is not the opened file / its text")
        cap.setdefault("parsed", []).append(src_.path if isinstance(src_, FileV2) else src_.file.path)
        return DictV({"schema": "S"})

    class JSValidator:
        """a jsonschema validator object bound to a schema"""
        def __init__(self, schema):
            self.schema = schema

        def sym_getattr(self, ev, name, node, mod):
            if name in ("validate", "iter_errors", "is_valid"):
                return BoundLib("jsv.check", self)
            raise ev.err(f"jsonschema validator attribute {name}", node, mod)

    class TypeCheckerV:
        """jsonschema TypeChecker: the standard checks plus redefinitions {type name: function(checker, instance)}"""
        def __init__(self, over=None):
            self.over = dict(over or {})

        def sym_getattr(self, ev, name, node, mod):
            if name in ("redefine", "redefine_many", "remove"):
                return BoundLib(f"jstc.{name}", self)
            raise ev.err(f"jsonschema type checker attribute {name}", node, mod)

    class JSValidatorClass:
        def __init__(self, type_checker=None, extended=None):
            self.type_checker = type_checker or TypeCheckerV()
            self.extended = extended          # keyword validators added/overridden: not modelled

        def sym_call(self, ev, args, kwargs, n, mod):
            v = JSValidator(kwargs.get("schema", args[0] if args else None))
            v.cls = self
            cap.setdefault("classes", []).append(self)
            return v

        def sym_getattr(self, ev, name, node, mod):
            if name == "check_schema":
                return BoundLib("identity_none", self)
            if name == "TYPE_CHECKER":
                return self.type_checker
            raise ev.err(f"jsonschema validator class attribute {name}", node, mod)

    def tc_redefine(ev, a, k):
        tc, name, fn = a
        return TypeCheckerV({**tc.over, name: fn})

    def tc_redefine_many(ev, a, k):
        tc, d = a[0], a[1] if len(a) > 1 else k.get("definitions")
        if not isinstance(d, DictV):
            raise AnalysisError("TypeChecker.redefine_many of something that is not a constant dict")
        return TypeCheckerV({**tc.over, **d.d})

    def tc_remove(ev, a, k):
        raise AnalysisError("TypeChecker.remove: a schema type made unknown is not modelled")

    def js_extend(ev, a, k):
        kk = k.all()
        base = a[0] if a else kk.get("validator")
        if not isinstance(base, JSValidatorClass):
            raise AnalysisError("jsonschema.validators.extend of something that is not a validator class")
        if kk.get("validators") or len(a) > 1 or kk.get("format_checker") is not None or kk.get("version") is not None:
            raise AnalysisError("jsonschema.validators.extend with keyword validators / format checker: altered schema semantics are not modelled")
        return JSValidatorClass(type_checker=kk.get("type_checker") or base.type_checker)

    def js_validate(ev, a, k):
        kk = k.all()
        cap["validated"].append((kk.get("instance", a[0] if a else None), kk.get("schema", a[1] if len(a) > 1 else None)))
        return None

    def jsv_check(ev, a, k):
        cap["validated"].append((a[1] if len(a) > 1 else k.get("instance"), a[0].schema))
        return Tup([], "list")

    intr2.update({
        "json.load": load_schema, "json.loads": load_schema,
        "jsonschema.validate": js_validate, "jsv.check": jsv_check, "identity_none": lambda ev, a, k: None,
        "jstc.redefine": tc_redefine, "jstc.redefine_many": tc_redefine_many, "jstc.remove": tc_remove, "jsonschema.validators.extend": js_extend,
        "jsonschema.validators.validator_for": lambda ev, a, k: (k.all(), JSValidatorClass())[1],
        "jsonschema.exceptions.best_match": lambda ev, a, k: None, "jsonschema.exceptions.relevance": lambda ev, a, k: None,
    })
    for vname in ("Draft3Validator", "Draft4Validator", "Draft6Validator", "Draft7Validator", "Draft201909Validator", "Draft202012Validator"):
        intr2[f"jsonschema.{vname}"] = lambda ev, a, k: JSValidator(k.get("schema", a[0] if a else None))
        intr2[f"jsonschema.validators.{vname}"] = intr2[f"jsonschema.{vname}"]
    ev2 = Ev(model, {}, intr2, ctx=ctx)
    cfg = DictV({"cfg": "C"})
    ev2.call_def(vf, model.mods["cij.io.config.validate"], vref, [cfg], {})
    vals = cap["validated"]
    inst, sch = vals[0] if len(vals) == 1 else (None, None)
    parsed = cap.get("parsed", [])
    cap["opened"] = [p_.text for p_ in fs2.opened()]
    ok = inst is cfg and isinstance(sch, DictV) and unmark(sch) == {"schema": "S"} and cap["opened"] == ["schema/config.schema.json"] \
        and len(parsed) == 1 and parsed[0].anchor == "packaged"
    # redefined type checks (validators.extend(..., type_checker=...)): folded on sample instances of every JSON kind and compared
    # with the standard meaning of the schema's types - a boolean is neither a "number" nor an "integer", a string never is
    samples = [("true", True), ("false", False), ("a string", "1"), ("null", None), ("a list", Tup([], "list")), ("a mapping", DictV({})),
               ("an integer", sp.Integer(3)), ("a non-integral number", sp.Rational(3, 2))]
    standard = {"number": {"an integer", "a non-integral number"}, "integer": {"an integer"}, "string": {"a string"}, "boolean": {"true", "false"},
                "null": {"null"}, "array": {"a list"}, "object": {"a mapping"}}
    for vc in cap.get("classes", []):
        for tname, fn in vc.type_checker.over.items():
            if tname not in standard:
                raise AnalysisError(f"redefined JSON type {tname!r} is not modelled")
            accepted = set()
            for label, sample in samples:
                r = ev2.call(fn, [vc.type_checker, sample], {}, None, model.mods["cij.io.config.validate"])
                if ev2.truth(r):
                    accepted.add(label)
            ctx.check(accepted == standard[tname], f"redefined check of JSON type {tname!r} keeps the standard meaning on sample instances of every kind", model.where(vref, vf),
                      expected=f"accepts exactly {sorted(standard[tname])}", found=f"accepts {sorted(accepted)}",
                      explanation=f"validation redefines what counts as {tname!r}: it now accepts {sorted(accepted - standard[tname]) or 'fewer values'} - a wrongly "
                                  f"typed setting (e.g. a boolean for a numeric field) is no longer rejected", key=f"validate.type.{tname}")
    ctx.check(ok, "validate_config validates the given object against the packaged schema", model.where(vref, vf),
              expected="jsonschema.validate(instance=config, schema=<schema/config.schema.json>)", found=f"opened {cap.get('opened')}, instance is config: {inst is cfg}",
              explanation="validation does not check the configuration against the packaged schema", key="validate.wiring")


def r_schema(ctx, model):
    import jsonschema
    sp_ = REPO / "cij" / "data" / "schema" / "config.schema.json"
    schema = json.loads(sp_.read_text())
    w = Where("cij/data/schema/config.schema.json", "", 0)
    ctx.fn("cij/data/schema/config.schema.json")
    # the dialect is the one jsonschema.validate() selects for this schema (its "$schema" entry, the newest draft when there is none): the meaning of
    # a keyword next to "$ref", for one, depends on it
    cls = jsonschema.validators.validator_for(schema)
    ctx.libfact(f"jsonschema.validators.validator_for(packaged schema) = {cls.__name__}")
    try:
        cls.check_schema(schema)
    except Exception as e:
        ctx.violation("schema.invalid", w, "a valid JSON schema", str(e)[:200], "the packaged schema is not a valid JSON schema")
        return
    v = cls(schema)
    valid = {"qha": {"input": "input01", "settings": {"NT": 16, "DT": 100, "T_MIN": 0, "NTV": 81, "P_MIN": 0, "DELTA_P": 1, "volume_ratio": 1.2, "order": 3}},
             "elast": {"input": "elast.dat", "settings": {"mode_gamma": {"interpolator": "lsq_poly", "order": 3},
                                                           "symmetry": {"system": "cubic", "ignore_rank": False, "ignore_residuals": False,
                                                                        "drop_atol": 1e-8, "residual_atol": 0.1}}},
             "output": {"pressure_base": ["cij"]}}
    ok_valid = not list(v.iter_errors(valid))
    ctx.check(ok_valid, "a configuration using every documented field validates", w, expected="valid", found=str([e.message for e in v.iter_errors(valid)][:2]),
              explanation="the schema rejects a documented configuration", key="schema.accepts")

    def mutate(path, value, delete=False):
        c = copy.deepcopy(valid)
        d = c
        for p in path[:-1]:
            d = d[p]
        if delete:
            del d[path[-1]]
        else:
            d[path[-1]] = value
        return c

    rejects = {
        "missing qha": mutate(["qha"], None, delete=True), "missing elast": mutate(["elast"], None, delete=True),
        "NT = 0": mutate(["qha", "settings", "NT"], 0), "NT = 2.5": mutate(["qha", "settings", "NT"], 2.5), "NT = 'x'": mutate(["qha", "settings", "NT"], "x"),
        "NTV = 0": mutate(["qha", "settings", "NTV"], 0), "T_MIN = -1": mutate(["qha", "settings", "T_MIN"], -1),
        "DT = 'x'": mutate(["qha", "settings", "DT"], "x"), "volume_ratio = 0.9": mutate(["qha", "settings", "volume_ratio"], 0.9),
        "order = 1": mutate(["qha", "settings", "order"], 1), "mode_gamma.order = 0": mutate(["elast", "settings", "mode_gamma", "order"], 0),
        "mode_gamma.order = 1.5": mutate(["elast", "settings", "mode_gamma", "order"], 1.5),
        "interpolator = 'cubic'": mutate(["elast", "settings", "mode_gamma", "interpolator"], "cubic"),
        "system = 'orthrohombic'": mutate(["elast", "settings", "symmetry", "system"], "orthrohombic"), "system = 2": mutate(["elast", "settings", "symmetry", "system"], 2),
        "ignore_rank = 'no'": mutate(["elast", "settings", "symmetry", "ignore_rank"], "no"),
        "unknown key in symmetry": mutate(["elast", "settings", "symmetry", "sytem"], "cubic"),
        "unknown key in elast settings": mutate(["elast", "settings", "mode_gama"], {}),
        "qha not an object": mutate(["qha"], 3), "drop_atol = 'x'": mutate(["elast", "settings", "symmetry", "drop_atol"], "x"),
        # below a documented minimum by a fraction (a minimum rewritten as an exclusive bound one unit lower admits these)
        "order = 1.5": mutate(["qha", "settings", "order"], 1.5), "order = 1.999": mutate(["qha", "settings", "order"], 1.999),
        "NT = 0.5": mutate(["qha", "settings", "NT"], 0.5), "NTV = 0.5": mutate(["qha", "settings", "NTV"], 0.5),
        "mode_gamma.order = 0.5": mutate(["elast", "settings", "mode_gamma", "order"], 0.5), "T_MIN = -0.5": mutate(["qha", "settings", "T_MIN"], -0.5),
        "volume_ratio = 0.999": mutate(["qha", "settings", "volume_ratio"], 0.999),
    }
    # names that merely CONTAIN a documented name (an enum rewritten as a pattern that is searched, not matched in full, or whose anchors bind to one alternative only)
    for field, names in ((["elast", "settings", "symmetry", "system"], ("triclinic", "monoclinic", "hexagonal", "trigonal6", "trigonal7", "orthorhombic", "tetragonal6", "tetragonal7", "cubic")),
                         (["elast", "settings", "mode_gamma", "interpolator"], ("spline", "lsq_poly", "lagrange", "krogh", "pchip", "hermite", "akima"))):
        for nm in names:
            for bad in ("x" + nm, nm + "x", nm + "\n", " " + nm, nm + " ", nm.upper(), nm.capitalize(), nm + nm, nm[:-1], nm + "7"):
                if bad not in names:
                    rejects[f"{field[-1]} = {bad!r}"] = mutate(field, bad)
    accepted = [k for k, c in rejects.items() if not list(v.iter_errors(c))]
    ctx.check(not accepted, f"{len(rejects)} single-field invalid perturbations are rejected", w, expected="ValidationError for each",
              found=f"accepted: {accepted}" if accepted else "all rejected",
              explanation="the schema accepts an invalid configuration (missing section, wrong type, out of range, unknown name or key)", key="schema.rejects")
    accepts = {"T_MIN = 0": mutate(["qha", "settings", "T_MIN"], 0), "NT = 1": mutate(["qha", "settings", "NT"], 1),
               "volume_ratio = 1": mutate(["qha", "settings", "volume_ratio"], 1.0), "order = 2": mutate(["qha", "settings", "order"], 2),
               "mode_gamma.order = 1": mutate(["elast", "settings", "mode_gamma", "order"], 1)}
    for s in ("triclinic", "monoclinic", "hexagonal", "trigonal6", "trigonal7", "orthorhombic", "tetragonal6", "tetragonal7", "cubic"):
        accepts[f"system {s}"] = mutate(["elast", "settings", "symmetry", "system"], s)
    for m in ("spline", "lsq_poly", "lagrange", "krogh", "pchip", "hermite", "akima"):
        accepts[f"interpolator {m}"] = mutate(["elast", "settings", "mode_gamma", "interpolator"], m)
    refused = [k for k, c in accepts.items() if list(v.iter_errors(c))]
    ctx.check(not refused, f"{len(accepts)} documented boundary values and names are accepted", w, expected="valid", found=f"refused: {refused}" if refused else "all accepted",
              explanation="the schema rejects a documented value", key="schema.documented")
    # shipped files
    files = [REPO / "cij" / "data" / "default" / "settings.yaml"] + sorted((REPO / "examples").glob("*/settings.yaml"))
    for p in files:
        data = yaml.safe_load(p.read_text())
        errs = [e.message for e in v.iter_errors(data)]
        ctx.fn(str(p.relative_to(REPO)))
        ctx.check(not errs, f"{p.relative_to(REPO)} validates", Where(str(p.relative_to(REPO)), "", 0), expected="valid", found="; ".join(errs[:2]) or "valid",
                  explanation="a shipped settings file does not validate against the packaged schema", key=f"shipped.{p.parent.name}")
    ctx.floor("shipped settings files", len(files), 2)


class _Stop(Exception):
    pass


def r_validated_on_load(ctx, model):
    """every call of read_config in the package validates: it passes validate=<true constant> or relies on a default that is true"""
    import ast as _ast
    from ..model import dotted_name as _dn, DEAD_MODULES as _dead
    f = model.func(f"{CFG}:read_config")
    params = [a.arg for a in f.args.args]
    defaults = dict(zip(reversed(params), reversed(f.args.defaults)))
    dflt = defaults.get("validate")
    default_true = isinstance(dflt, _ast.Constant) and dflt.value is True
    n = 0
    for mname, mod in sorted(model.mods.items()):
        if mname in _dead or mname == CFG:
            continue
        for q, g in mod.funcs.items():
            for c in _ast.walk(g):
                if isinstance(c, _ast.Call) and (_dn(c.func) or "").split(".")[-1] == "read_config":
                    n += 1
                    arg = next((kw.value for kw in c.keywords if kw.arg == "validate"), c.args[1] if len(c.args) > 1 else None)
                    ok = default_true if arg is None else (isinstance(arg, _ast.Constant) and bool(arg.value))
                    ctx.check(ok, f"{mname}:{q} loads its configuration with validation", model.where(f"{mname}:{q}", c), expected="read_config(path) with validate defaulting to True, or validate=True",
                              found=f"validate = {'default ' + (src(dflt) if dflt is not None else '<none>') if arg is None else src(arg)}",
                              explanation="a configuration is loaded without being validated against the packaged schema: a missing section, a wrongly typed or out-of-range "
                                          "setting or an unknown interpolator is no longer rejected", key=f"load.validate.{q}")
    ctx.floor("read_config call sites", n, 1)


def r_qha_settings(ctx, model):
    """the settings handed to the QHA layer = the library's defaults overridden by every qha setting of the effective configuration"""
    from ..sym import Opaque
    ref = "cij.core.qha_adapter:QHACalculatorAdapter._load_qha_calculator"
    f = model.func(ref)
    w = model.where(ref, f)
    defaults = {"NT": "LIB_NT", "DT": "LIB_DT", "P_MIN": "LIB_PMIN", "order": "LIB_order", "static_only": "LIB_static"}
    user = {"NT": "USER_NT", "T_MIN": "USER_TMIN", "order": "USER_order"}
    lib_defaults = marker(defaults)
    cap = {}

    def ctor(ev, a, k):
        cap["settings"] = a[-1] if a else k.get("settings")
        raise _Stop()

    def copy_(ev, a, k):
        v = a[0]
        if not isinstance(v, DictV):
            raise AnalysisError("copy of something that is not the settings dictionary")
        return DictV(dict(v.d))

    intr = {"copy.copy": copy_, "copy.deepcopy": copy_}
    ev = Ev(model, {("cij.core.qha_adapter:QHACalculator", "__new__"): ctor}, intr, ctx=ctx)
    ev.ext_values = {"qha.settings.DEFAULT_SETTINGS": lib_defaults, "qha.calculator.DEFAULT_SETTINGS": lib_defaults}
    try:
        from ..sym import ClsV
        loader = ev.get_attr(ClsV("cij.core.qha_adapter:QHACalculatorAdapter"), "_load_qha_calculator")      # static, class or plain function alike
        ev.call(loader, [marker(user), Opaque("qha_input")], {})
    except _Stop:
        pass
    got = cap.get("settings")
    want = dict(defaults)
    want.update(user)
    ok = isinstance(got, DictV) and unmark(got) == want
    ctx.check(ok, "QHACalculator receives the library defaults overridden by the user's qha settings", w, expected=str(want),
              found=str(unmark(got)) if isinstance(got, DictV) else repr(got),
              explanation="the qha settings of the effective configuration (NT, DT, P_MIN, DELTA_P, NTV, order, ...) do not all reach the QHA calculator, or library "
                          "defaults override them: the calculation runs on other grids than the ones requested", key="qha.settings")
    ctx.check(unmark(lib_defaults) == defaults, "the library's default settings are not modified", w, expected=str(defaults), found=str(unmark(lib_defaults)),
              explanation="the user's settings are merged into qha's own DEFAULT_SETTINGS object: every later calculation in the process starts from them",
              key="qha.settings.defaults-untouched")


RULES = [
    ("R16.1-3", "merge decision table, union domain, purity, idempotence (partial evaluation on marker dictionaries)", r_merge),
    ("R16.4", "read_config suffix dispatch and validation must-pass-through", r_loader),
    ("R16.4b", "apply_default_config argument order and packaged default; validate_config wiring", r_defaults),
    ("R16.4c", "every configuration load in the package validates (call-site argument or default)", r_validated_on_load),
    ("R16.7", "the effective qha settings reach the QHA calculator (library defaults overridden by the user's)", r_qha_settings),
    ("R16.5-6", "schema constraints/enums as data; shipped default and example files validate", r_schema),
]
