"""C06 — (T,V) -> (T,P) conversion evaluates each quantity at the volume where P(T,V) = P."""
from __future__ import annotations

import ast

import sympy as sp

from .. import units as U
from ..anf import is_zero, short
from ..cfg import MustPass, raises_with_guards, enclosing_handlers
from ..facts import (physics_seeds, tensor_seeds, KeyObj, KEYS21, CALC, VOLBASE, PRSBASE, ADAPTER, QHACALC, QVOL, QPRS,
                     V, T, PTV, PDES, VTP, LONG, qha_attr_hook)
from ..libsum import lib_func, positional_params
from ..model import dotted_name, src, body_wo_doc
from ..report import AnalysisError
from ..sym import Ev, Obj, Tup, DictV, as_sym, RaisedV

AU = U.Ry / U.bohr ** 3
V2P = sp.Function("V2P")
LEVEL = "other"
EXPLANATION = (
    "Static analysis decides: every named quantity of the pressure-base interface (six averages, two velocities, "
    "both modulus views, any c_ij/s_ij attribute) is qha's v2p applied to the like-named volume-base quantity with "
    "arguments (f(T,V), P(T,V) = p_tv_au, requested pressures = desired_pressures) in the positions of the installed "
    "v2p signature and in the same unit; p_array/volumes/pressures/t_array are bound to the qha attributes named by "
    "the property; the range check desired_pressure_status() is executed after refine_grid() on every path of "
    "_load_qha_calculator, contains an unconditional-on-flags ValueError for 'max requested pressure above the "
    "smallest reachable pressure', and no caller up to the CLI catches it.")
NOT_DECIDED = "interpolation accuracy, P(T,V(T,P)) = P, monotonic V(P) - behaviour of qha's v2p/volume."
ASSUMPTIONS = ["T-LIB: qha.v2p.v2p(func_of_t_v, p_of_t_v, desired_pressures) interpolates along each isotherm",
               "T-LIB: qha attributes desired_pressures [Ry/bohr^3], v_tp_bohr3, p_tv_au, p_tv_gpa, desired_pressures_gpa"]


def v2p_intrinsic(ev, args, kwargs):
    names, required = positional_params(lib_func("qha/v2p.py", "v2p"))
    if len(args) > len(names):
        raise AnalysisError("v2p called with too many arguments")
    b = dict(zip(names, args))
    for k, v in kwargs.items():
        if k not in names or k in b:
            raise AnalysisError(f"v2p called with bad keyword {k}")
        b[k] = v
    for r in required:
        if r not in b:
            raise AnalysisError(f"v2p call lacks argument {r}")
    return V2P(as_sym(b["func_of_t_v"]), *common_affine_image(as_sym(b["p_of_t_v"]), as_sym(b["desired_pressures"])))


def common_affine_image(p1, p2):
    """qha's v2p interpolates f along each isotherm at the abscissae p_of_t_v and evaluates at desired_pressures (four-point Lagrange on the nearest
    nodes): the result is unchanged when BOTH are mapped by one increasing affine map a * p + c (a > 0, c the same scalar for every element).
    Such a pair is rewritten to its pre-image (PTV / AU, PDES / AU); anything else is left as it is (and then differs from the reference)."""
    # one element of a grid (p_array[0]) is a scalar, not the grid
    elems = {x: sp.Dummy(f"elem{i}", real=True) for i, x in enumerate(sorted((x_ for x_ in (p1.atoms(sp.Function) | p2.atoms(sp.Function) | p1.atoms(sp.Indexed) | p2.atoms(sp.Indexed))
                                                                                             if type(x_).__name__ in ("Indexed", "GRIDAT")), key=str))}
    e1, e2 = sp.expand(p1.xreplace(elems)), sp.expand(p2.xreplace(elems))
    if not (e1.has(PTV) and e2.has(PDES)):
        return p1, p2
    a1, a2 = e1.coeff(PTV, 1), e2.coeff(PDES, 1)
    c1, c2 = sp.expand(e1 - a1 * PTV), sp.expand(e2 - a2 * PDES)
    if c1.has(PTV) or c2.has(PDES) or a1.has(PTV, PDES) or a2.has(PTV, PDES):
        # a shift that is itself the whole vector of pressures (PDES, not one element of it) is an elementwise change, not a common shift
        return p1, p2
    if sp.simplify(a1 - a2) != 0 or sp.simplify(c1 - c2) != 0:
        return p1, p2
    if not (a1 * AU).is_positive:
        return p1, p2
    return PTV / AU, PDES / AU


def setup(ctx, model):
    seeds, intr, calc = physics_seeds(model)
    tensor_seeds(calc)
    intr["qha.v2p.v2p"] = v2p_intrinsic
    ev = Ev(model, seeds, intr, attr_hook=qha_attr_hook, ctx=ctx)
    vol = Obj(VOLBASE, {"calculator": calc})
    prs = Obj(PRSBASE, {"calculator": calc})
    calc.attrs["volume_based_result"] = vol
    calc.attrs["pressure_based_result"] = prs
    return ev, calc, vol, prs


def conv(x):
    return V2P(as_sym(x), PTV / AU, PDES / AU)


def r_v2p(ctx, model):
    ev, calc, vol, prs = setup(ctx, model)
    names, _ = positional_params(lib_func("qha/v2p.py", "v2p"))
    ctx.libfact(f"qha.v2p.v2p parameters {names} (installed source)")
    if names[:3] != ["func_of_t_v", "p_of_t_v", "desired_pressures"]:
        raise AnalysisError(f"installed qha v2p has an unexpected signature {names}")
    w = model.where(f"{PRSBASE}.v2p")
    x = sp.Symbol("X", real=True)
    got = ev.call(ev.get_attr(prs, "v2p"), [x], {})
    ctx.check(got == conv(x), "v2p(f) = qha.v2p(f, p_tv_au, desired_pressures)", w,
              expected=str(conv(x)), found=str(got),
              explanation="the conversion must interpolate f(T,V) with P(T,V) = qha p_tv_au at the requested pressures "
                          "(same unit, installed argument order)", key="PressureBase.v2p")
    named = ["bulk_modulus_voigt", "bulk_modulus_reuss", "bulk_modulus_voigt_reuss_hill", "shear_modulus_voigt",
             "shear_modulus_reuss", "shear_modulus_voigt_reuss_hill", "primary_velocities", "secondary_velocities"]
    n = 0
    for name in named:
        owner, f, kind = model.find_member(PRSBASE, name)
        wh = model.where(f"{owner}.{name}", f) if f is not None else w
        got = as_sym(ev.get_attr(prs, name))
        want = conv(ev.get_attr(vol, name))
        n += 1
        ctx.check(got == want or is_zero(got - want), f"P-base {name}", wh, expected=f"v2p(volume_base.{name})",
                  found=short(got, 200), explanation=f"pressure-base {name} is not the conversion of the volume-base "
                                                      f"quantity of the same name", key=f"P.{name}")
    # attribute forwarding (__getattr__) and the modulus views
    for name in ("c11", "c12t", "c44s", "s12", "c66"):
        got = as_sym(ev.get_attr(prs, name))
        want = conv(ev.get_attr(vol, name))
        n += 1
        ctx.check(got == want, f"P-base __getattr__ {name}", model.where(f"{PRSBASE}.__getattr__"), expected=f"v2p(volume_base.{name})",
                  found=short(got, 200), explanation="attribute forwarding of the pressure base does not convert the "
                                                      "like-named volume-base attribute", key=f"P.getattr.{name}")
    for view, store in (("modulus_adiabatic", "CAD"), ("modulus_isothermal", "CIS")):
        mv = ev.get_attr(prs, view)
        bad = []
        for k in KEYS21:
            got = ev.subscript(mv, KeyObj(k))
            want = conv(sp.Symbol(f"{store}_{k[1:]}", real=True))
            if got != want:
                bad.append(f"{k} -> {got}")
        items = ev.call(ev.get_attr(mv, "items"), [], {})
        ok_items = isinstance(items, Tup) and len(items.items) == 21 and all(
            isinstance(it, Tup) and it.items[1] == conv(sp.Symbol(f"{store}_{it.items[0].name[1:]}", real=True)) for it in items.items)
        n += 1
        ctx.check(not bad and ok_items, f"P-base {view} view", model.where(f"{PRSBASE}.{view}"),
                  expected=f"[key] and items() give v2p({view}[key]) for every key", found="; ".join(bad[:4]) or ("items() differ" if not ok_items else "ok"),
                  explanation=f"the pressure-base {view} view does not convert the like-named dictionary", key=f"P.{view}")
    got = as_sym(ev.get_attr(prs, "mass"))
    ctx.check(is_zero(got - as_sym(ev.get_attr(vol, "mass"))), "P-base mass", model.where(f"{PRSBASE}.mass"),
              expected="volume_base.mass", found=str(got), explanation="mass must pass through unchanged", key="P.mass")
    ctx.floor("pressure-base quantities compared", n, 15)


def r_bindings(ctx, model):
    ev, calc, vol, prs = setup(ctx, model)
    want = [(prs, "p_array", PDES / AU, "desired_pressures [Ry/bohr^3]"), (prs, "volumes", VTP / U.bohr ** 3, "v_tp_bohr3"),
            (prs, "t_array", T / U.K, "temperature_array"), (vol, "pressures", PTV / AU, "p_tv_au"),
            (vol, "v_array", V / U.bohr ** 3, "finer_volumes_bohr3"), (vol, "t_array", T / U.K, "temperature_array")]
    for obj, name, w, text in want:
        got = as_sym(ev.get_attr(obj, name))
        ctx.check(is_zero(got - w), f"{obj.label}.{name} <- {text}", model.where(f"{obj.cls}.{name}"), expected=text, found=str(got),
                  explanation=f"{name} is not bound to the qha quantity {text}", key=f"{obj.label}.{name}")
    # the pressure field itself on the (T, P) grid: the converted P(T, V) - which is the requested pressures along every isotherm, since interpolating the
    # abscissa at the requested abscissae returns them - or the requested pressures laid out over the isotherms
    got = as_sym(ev.get_attr(prs, "pressures"))
    ctx.check(is_zero(got - conv(PTV / AU)) or is_zero(got - PDES / AU), f"{prs.label}.pressures <- v2p(P(T,V)) = requested pressures", model.where(f"{PRSBASE}.v2p"),
              expected="v2p(volume_base.pressures), or desired_pressures along every isotherm", found=str(got),
              explanation="the pressure field reported on the (T, P) grid is not the requested pressures along each isotherm", key=f"{prs.label}.pressures")
    # adapter wiring assumed by the seeds
    init = model.func(f"{ADAPTER}.__init__")
    stores = {}
    for st in ast.walk(init):
        if isinstance(st, ast.Assign) and isinstance(st.targets[0], ast.Attribute) and isinstance(st.value, ast.Call):
            stores[st.targets[0].attr] = (dotted_name(st.value.func), [src(a) for a in st.value.args])
    ok = (stores.get("volume_base_results") == ("QHAVolumeBaseInterface", ["self.calculator"])
          and stores.get("pressure_base_results") == ("QHAPressureBaseInterface", ["self.calculator"])
          and stores.get("calculator", (None,))[0] == "self._load_qha_calculator")
    ctx.check(ok, "adapter wiring", model.where(f"{ADAPTER}.__init__", init),
              expected="calculator = _load_qha_calculator(..); volume/pressure interfaces built on that calculator", found=str(stores),
              explanation="the two qha interfaces are not views of the one loaded calculator", key="adapter.init")
    # Calculator builds both result interfaces on itself
    cinit = model.func(f"{CALC}.__init__")
    cs = {}
    for st in ast.walk(cinit):
        if isinstance(st, ast.Assign) and isinstance(st.targets[0], ast.Attribute) and isinstance(st.value, ast.Call):
            cs[st.targets[0].attr] = (dotted_name(st.value.func), [src(a) for a in st.value.args])
    ok = cs.get("volume_based_result") == ("CijVolumeBaseInterface", ["self"]) and cs.get("pressure_based_result") == ("CijPressureBaseInterface", ["self"])
    ctx.check(ok, "Calculator result interfaces", model.where(f"{CALC}.__init__", cinit), expected="CijVolumeBaseInterface(self), CijPressureBaseInterface(self)",
              found=str({k: v for k, v in cs.items() if 'result' in k}), explanation="volume_base / pressure_base are not the interfaces of this calculator", key="calculator.init")


def r_range(ctx, model):
    ref = f"{ADAPTER}._load_qha_calculator"
    f = model.func(ref)
    ctx.fn(ref)
    mp = MustPass(f)
    rets = [r for r in mp.returns if r[0] is not None]
    if not rets:
        raise AnalysisError("_load_qha_calculator has no return")
    for rnode, must in rets:
        calls = [c.split(".")[-1] for c in must]
        ok = "refine_grid" in calls and "desired_pressure_status" in calls and \
            calls.index("refine_grid") < len(calls) - 1 - calls[::-1].index("desired_pressure_status")
        ctx.check(ok, f"range check dominates return at line {rnode.lineno}", model.where(ref, rnode),
                  expected="... refine_grid() ... desired_pressure_status() ... return", found=" > ".join(calls[-8:]),
                  explanation="a path returns the qha calculator without the requested-pressure range check after "
                              "refine_grid(): an overshooting grid would be extrapolated", key="load.range_check")
    # object returned is the one checked
    rv = rets[0][0].value
    ctx.check(isinstance(rv, ast.Name), "returns the checked calculator", model.where(ref, rets[0][0]), expected="return calculator",
              found=src(rv), explanation="returned object is not a local calculator", key="load.return")
    # the guard, folded on scenario grids: P(T, V) in GPa with rows T = (cold, hot), columns V = (largest ... smallest);
    # the smallest volume reaches 100 GPa on the cold isotherm and 120 GPa on the hot one
    dref = f"{QHACALC}.desired_pressure_status"
    d = model.func(dref)
    ctx.fn(dref)
    from ..sym import ArrV
    I = sp.Integer
    table = ArrV(0, (2, 3), cells={(0, 0): I(-5), (0, 1): I(40), (0, 2): I(100), (1, 0): I(2), (1, 1): I(50), (1, 2): I(120)})
    bad = []
    # each grid written upwards (DELTA_P > 0) and downwards (P_MIN at the top, DELTA_P < 0: qha.tools.arange(P_MIN, NTV, DELTA_P) takes either sign)
    for top, must_raise, down in [(t_, m_, d_) for d_ in (False, True) for t_, m_ in ((60, False), (99, False), (101, True), (110, True), (119, True), (121, True), (500, True))]:
        grid = [I(0), I(top) / 3, 2 * I(top) / 3, I(top)]
        smp = [I(0), 2 * I(top) / 3]
        if down:
            grid, smp = grid[::-1], [I(top), I(top) / 3]
        want = ArrV(0, (4,), cells={(i_,): g_ for i_, g_ in enumerate(grid)})
        # what is written is every pressure of the grid; the sampled grid (every 2nd pressure here) is coarser
        sample = ArrV(0, (2,), cells={(i_,): g_ for i_, g_ in enumerate(smp)})
        obj = Obj(QHACALC, {"p_tv_gpa": table, "desired_pressures_gpa": want, "pressure_sample_array": sample, "desired_pressures": want,
                            "settings": DictV({"DELTA_P": I(-1) if down else I(1), "DELTA_P_SAMPLE": I(-2) if down else I(2), "high_verbosity": False, "qha_output": "out"})})
        ev = Ev(model, {}, {}, ctx=ctx)
        # the check as the loader calls it: arguments of the call site are evaluated on the scenario calculator
        sites = [c for c in ast.walk(f) if isinstance(c, ast.Call) and isinstance(c.func, ast.Attribute) and c.func.attr == "desired_pressure_status"]
        if len(sites) != 1 or not isinstance(sites[0].func.value, ast.Name):
            raise AnalysisError("_load_qha_calculator: expected exactly one call <calculator>.desired_pressure_status(...)")
        amod = model.mods["cij.core.qha_adapter"]
        env = {sites[0].func.value.id: obj}
        # locals of the loader that the arguments may name: bound from the scenario calculator by the loader's own assignments
        for st_ in f.body:
            if isinstance(st_, ast.Assign) and len(st_.targets) == 1 and isinstance(st_.targets[0], ast.Name) and isinstance(st_.value, ast.Attribute) \
                    and isinstance(st_.value.value, ast.Name) and st_.value.value.id == sites[0].func.value.id and st_.value.attr in obj.attrs \
                    and st_.lineno < sites[0].lineno:
                env[st_.targets[0].id] = obj.attrs[st_.value.attr]
        try:
            cargs = [ev.eval(a_, env, amod) for a_ in sites[0].args]
            ckw = {kw_.arg: ev.eval(kw_.value, env, amod) for kw_ in sites[0].keywords}
            ev.call_def(d, amod, dref, [obj] + cargs, ckw)
            outcome = None
        except RaisedV as e:
            outcome = e.exc_name
        if must_raise and outcome != "ValueError":
            bad.append(f"grid {'down from' if down else 'up to'} {top} GPa (reachable at every T: 100): {'accepted' if outcome is None else 'raises ' + outcome}, want ValueError")
        if not must_raise and outcome is not None:
            bad.append(f"grid {'down from' if down else 'up to'} {top} GPa (reachable at every T: 100): raises {outcome}, want acceptance")
    ctx.check(not bad, "ValueError iff the largest requested pressure exceeds the pressure reachable at EVERY temperature (14 scenario grids, written upwards and downwards)", model.where(dref, d),
              expected="raise ValueError iff max(requested) > min over T of P(T, V_smallest)", found="; ".join(bad[:3]) or "14 scenarios as required",
              explanation="the range check does not refuse (with ValueError, unconditionally on flags) exactly the pressure grids that extend above "
                          "the pressure reachable at every temperature", key="desired_pressure_status.guard")
    # nobody catches it on the way to the CLI
    chain = [(ref, "desired_pressure_status"), (f"{ADAPTER}.__init__", "_load_qha_calculator"), (f"{CALC}._load", "QHACalculatorAdapter"),
             (f"{CALC}.__init__", "_load"), ("cij.cli.main:run", "Calculator"), ("cij.cli.main:main", "run")]
    for fref, callee in chain:
        fn = model.func(fref)
        ctx.fn(fref)
        calls = [c for c in ast.walk(fn) if isinstance(c, ast.Call) and (dotted_name(c.func) or "").split(".")[-1] == callee]
        if not calls:
            raise AnalysisError(f"call chain broken: {fref} does not call {callee}")
        hs = [h for c in calls for h in enclosing_handlers(fn, c)]
        ctx.check(not hs, f"{fref.split(':')[1]} does not catch the refusal", model.where(fref, calls[0]), expected="no enclosing try/except",
                  found=f"{len(hs)} handler(s)", explanation="an exception handler between the range check and the command "
                                                              "would swallow the refusal", key=f"nocatch.{fref.split(':')[1]}")


def guard_ok(t, selfn):
    if not (isinstance(t, ast.Compare) and len(t.ops) == 1):
        return False
    l, r, op = t.left, t.comparators[0], t.ops[0]
    if isinstance(op, (ast.Gt, ast.GtE)):
        l, r = r, l
    elif not isinstance(op, (ast.Lt, ast.LtE)):
        return False
    ls, rs = src(l), src(r)
    for suffix_l, suffix_r in (("p_tv_gpa", "desired_pressures_gpa"), ("p_tv_au", "desired_pressures")):
        if ls in (f"{selfn}.{suffix_l}[:, -1].min()", f"numpy.min({selfn}.{suffix_l}[:, -1])") and \
                rs in (f"{selfn}.{suffix_r}.max()", f"numpy.max({selfn}.{suffix_r})", f"{selfn}.{suffix_r}[-1]"):
            return True
    return False


RULES = [
    ("R06.1-2", "pressure-base quantities are qha v2p of the like-named volume-base quantities (installed argument order, same unit)", r_v2p),
    ("R06.3", "p_array/volumes/pressures/t_array/v_array bound to the qha attributes; interface wiring", r_bindings),
    ("R06.4", "range check after refine_grid on every path, ValueError guard, no handler up to the CLI", r_range),
]
