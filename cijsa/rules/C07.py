"""C07 — VRH averages, bounds and velocities are those of the full tensor in SI units."""
from __future__ import annotations

import itertools

import sympy as sp

from .. import units as U
from ..anf import is_zero, short
from ..facts import physics_seeds, tensor_seeds, KeyObj, KEYS21, CALC, VOLBASE, V, CELLMASS, V2S, voigt_canon
from ..model import src
from ..report import AnalysisError
from ..sym import Ev, Obj, Tup, DictV, RaisedV, as_sym, ArrV

AU = U.Ry / U.bohr ** 3
LEVEL = "other"
EXPLANATION = (
    "Static analysis decides: the six Voigt/Reuss/Hill expressions of the volume-base interface, evaluated through "
    "the class's own __getattr__ dispatch, equal the Voigt-notation forms generated mechanically from the tensor "
    "definitions C_iijj/9, (3C_ijij-C_iijj)/30, 1/S_iijj, 15/(6S_ijij-2S_iijj) (Voigt factors 1/2/4 on compliances); "
    "the 6x6 matrix that is inverted is the symmetric assembly of the adiabatic tensor and every compliance is stored "
    "under its canonical key; the attribute dispatch table (c..t isothermal, c..[s] adiabatic, s.. compliance, else "
    "AttributeError); v_p, v_s = sqrt((K+4G/3 | G) V N_A / M) in km/s by quantity calculus.")
NOT_DECIDED = ("Reuss <= Hill <= Voigt (a theorem given the formulas and positive definiteness), accuracy of the batched "
               "inverse, positive definiteness of the stiffness.")
ASSUMPTIONS = ["block loops over a grid axis are folded once; coverage of the axis is refuted by an exact integer witness or accepted when the trip count is ceil(L/b) structurally / on the box [1,240] x ([1,48] + {64,100,1000}) (cijsa/blocks.py)",
               "T-LIB: numpy.linalg.inv inverts over the trailing (6,6) axes",
               "cell mass in the static table is in g/mol (documented input format)",
               "key canonicalisation c_() conforms to T-IDX (property C10)"]


def _conjuncts(c):
    return _conjuncts(c.lhs) + _conjuncts(c.rhs) if getattr(c, "op", None) == "and" else [c]


def _guard_verdict(ev, c, inverted):
    """'' when the condition on slogdet's (sign, log|det|) of the inverted matrix is implied by positive definiteness (up to the range of normal doubles),
    else what it excludes; AnalysisError for a condition this rule cannot read"""
    lhs, rhs, op = sp.sympify(c.lhs), sp.sympify(c.rhs), c.op
    if rhs.free_symbols and not lhs.free_symbols:
        lhs, rhs, op = rhs, lhs, {"<": ">", "<=": ">=", ">": "<", ">=": "<=", "==": "==", "!=": "!="}[op]
    if not (lhs.is_Symbol and rhs.is_number and not rhs.free_symbols):
        raise AnalysisError(f"guard in front of the inversion not understood: {c.text}")
    kind, tag = str(lhs).rsplit("_", 1)
    of = getattr(ev, "slogdets", {}).get(int(tag))
    if of is None or any(not is_zero(sp.sympify(of.get((i, j))) - sp.sympify(inverted.get((i, j)))) for i in range(6) for j in range(6)):
        return f"{c.text}: tests the determinant of a matrix that is not the one inverted"
    r = float(rhs)
    if kind == "SLOGDET_SIGN":
        if (op == ">" and -1 <= r < 1) or (op == ">=" and -1 < r <= 1) or (op == "==" and r == 1) or (op == "!=" and r in (-1.0, 0.0) and False):
            return ""
        return f"{c.text}: not the test 'determinant positive'"
    if kind == "SLOGDET_LOG":
        # an ABSOLUTE threshold on a quantity with units (stiffness^6 in Ry/bohr^3: 1 GPa = 6.8e-5, so det ~ 1e-16 already for moduli of some tens of GPa).
        # A tensor as soft as 1 Pa in every eigen-direction has det = (6.8e-14)^6 ~ 1e-79, log = -181: a threshold below exp(-200) excludes nothing that
        # is a solid (log of the smallest normal double, finfo.tiny, is -708); one above it is a finding
        if op in (">", ">=") and r <= -200:
            return ""
        return f"{c.text}: an absolute threshold exp({r:.4g}) = {sp.exp(rhs).evalf(3)} on the determinant in internal units (Ry/bohr^3)^6"
    raise AnalysisError(f"guard in front of the inversion not understood: {c.text}")


def setup(ctx, model, keys=None):
    seeds, intr, calc = physics_seeds(model)
    tensor_seeds(calc, keys)
    ev = Ev(model, seeds, intr, ctx=ctx)
    vol = Obj(VOLBASE, {"calculator": calc})
    calc.attrs["volume_based_result"] = vol
    return ev, calc, vol


def tensor_reference():
    C = lambda i, j, k, l: sp.Symbol("CAD_" + voigt_canon(f"{i}{j}{k}{l}"), real=True)

    def S(i, j, k, l):
        key = voigt_canon(f"{i}{j}{k}{l}")
        fac = (1 if i == j else 2) * (1 if k == l else 2)     # s_mn = fac * S_ijkl
        return sp.Symbol("SAD_" + key, real=True) / fac

    r3 = (1, 2, 3)
    Ciijj = sum(C(i, i, j, j) for i in r3 for j in r3)
    Cijij = sum(C(i, j, i, j) for i in r3 for j in r3)
    Siijj = sum(S(i, i, j, j) for i in r3 for j in r3)
    Sijij = sum(S(i, j, i, j) for i in r3 for j in r3)
    KV, GV = Ciijj / 9, (3 * Cijij - Ciijj) / 30
    KR, GR = 1 / Siijj, 15 / (6 * Sijij - 2 * Siijj)
    return {"bulk_modulus_voigt": KV, "bulk_modulus_reuss": KR, "bulk_modulus_voigt_reuss_hill": (KV + KR) / 2,
            "shear_modulus_voigt": GV, "shear_modulus_reuss": GR, "shear_modulus_voigt_reuss_hill": (GV + GR) / 2}


def r_vrh(ctx, model):
    ev, calc, vol = setup(ctx, model)
    ref = tensor_reference()
    for name, want in ref.items():
        owner, f, _ = model.find_member(VOLBASE, name)
        if f is None:
            raise AnalysisError(f"anchor vanished: {VOLBASE}.{name}")
        got = as_sym(ev.get_attr(vol, name))
        ctx.check(is_zero(got - want), name, model.where(f"{owner}.{name}", f), expected=str(want), found=str(got),
                  explanation=f"{name} is not the Voigt-notation form of the tensor definition "
                              f"(residual {short(got - want)})", key=name)


def r_compliances(ctx, model):
    # the components as the static table lists them: in the canonical order, and in two other column orders (a shear component between the
    # longitudinal ones; shear components first) - position in the 6x6 matrix must follow the Voigt index, not the order of appearance
    orders = {"": list(KEYS21),
              " (columns c11 c22 c55 c33 ...)": ["c11", "c22", "c55", "c33"] + [k for k in KEYS21 if k not in ("c11", "c22", "c55", "c33")],
              " (shear columns first)": [k for k in KEYS21 if int(k[1]) > 3] + [k for k in KEYS21 if int(k[1]) <= 3]}
    for suffix, order in orders.items():
        _r_compliances_one(ctx, model, suffix, order)


def _r_compliances_one(ctx, model, suffix, order):
    ev, calc, vol = setup(ctx, model)
    tensor_seeds(calc, order)
    del calc.attrs["_compliances"]
    calc.attrs["config"] = DictV({"elast": DictV({"settings": DictV({"symmetry": DictV({})})})})
    ref = f"{CALC}._calculate_compliances"
    f = model.func(ref)
    w = model.where(ref, f)
    ev.call_def(f, model.mods["cij.core.calculator"], ref, [calc], {})
    inv = getattr(ev, "inversions", [])
    if len(inv) != 1:
        raise AnalysisError(f"_calculate_compliances: expected one matrix inversion, found {len(inv)}")
    m = inv[0].sym_of
    bad = []
    for i in range(6):
        for j in range(6):
            want = sp.Symbol("CAD_" + voigt_canon(f"{i + 1}{j + 1}"), real=True)
            if not is_zero(m.get((i, j)) - want):
                bad.append(f"[{i},{j}]={m.get((i, j))} (want {want})")
    ctx.check(not bad and tuple(m.shape) == (6, 6), "inverted matrix = symmetric assembly of modulus_adiabatic" + suffix, w,
              expected="M[i-1,j-1] = M[j-1,i-1] = modulus_adiabatic[c_ij] for all 21 keys", found="; ".join(bad[:6]) or "as required",
              explanation="the 6x6 stiffness that is inverted is not the full symmetric adiabatic tensor", key="compliances.assembly" + suffix)
    cut = getattr(inv[0], "truncated", None)
    ctx.check(cut is None, "the compliance tensor is the inverse itself, for every conditioning of the stiffness" + suffix, w, expected="numpy.linalg.inv (or a pseudo-inverse with the default cut-off)",
              found=f"pseudo-inverse with cut-off {cut}" if cut is not None else "an inverse",
              explanation=f"the stiffness is inverted by a pseudo-inverse that drops every eigenvalue below {cut} x the largest one: for a tensor with a soft mode "
                          f"(near an elastic instability) the compliances are not the inverse, and the Reuss and Hill averages are wrong", key="compliances.truncated" + suffix)
    # a guard in front of the inversion (compliances left at a fill value where it fails) must hold for every positive-definite stiffness
    guards = getattr(ev, "inversion_guards", [])
    for gi, (cond, fill, at) in enumerate(guards):
        verdicts = [_guard_verdict(ev, c, m) for c in _conjuncts(cond)]
        bad = [v for v in verdicts if v]
        ctx.check(not bad, f"the guard in front of the inversion ({cond.text[:80]}) holds wherever the stiffness is positive definite" + suffix, w,
                  expected="conditions implied by positive definiteness: determinant sign > 0; a log-determinant threshold below exp(-200) (softer than 1 Pa in every direction)",
                  found="; ".join(bad) or "implied by positive definiteness",
                  explanation=f"where the guard fails the compliances are left at {fill}: " + ("; ".join(bad)) + " - a soft but positive-definite tensor gets no compliances, "
                              "and its Reuss and Hill averages and velocities are lost", key=f"compliances.guard{gi}" + suffix)
    comp = calc.attrs.get("_compliances")
    if not isinstance(comp, DictV):
        raise AnalysisError("_calculate_compliances does not bind self._compliances to a dict")
    bad = []
    for k in KEYS21:
        i, j = int(k[1]) - 1, int(k[2]) - 1
        got = comp.d.get(KeyObj(k))
        if got is None or not is_zero(as_sym(got) - inv[0].get((i, j))):
            bad.append(f"{k} -> {got}")
    ctx.check(not bad and len(comp.d) == 21, "compliances stored under canonical keys" + suffix, w,
              expected="_compliances[c_(i+1,j+1)] = inv(M)[.., i, j] for i <= j", found="; ".join(bad[:6]) or "21 keys as required",
              explanation="a compliance component is stored under the wrong key or not at all", key="compliances.store" + suffix)


def r_compliances_systems(ctx, model):
    """whatever the configured crystal system, the stored compliances are the inverse of the full symmetric stiffness:
    identity of rational functions tested by folding with exact rational arithmetic at two generic points per system,
    the stiffness having exactly the non-vanishing components the system's relation file allows"""
    import random
    from ..fillmodel import parse_relations, relation_matrix, SYMS21
    from ..report import REPO
    ref = f"{CALC}._calculate_compliances"
    f = model.func(ref)
    w = model.where(ref, f)
    systems = [None] + sorted(p.name for p in (REPO / "cij" / "data" / "constraints").iterdir() if p.is_file())
    # without a crystal system (or triclinic) the tensor carries exactly the components the static table tabulates: any
    # subset.  Scenarios: the orthotropic nine plus every one and every pair of the twelve coupling components, so that a
    # shortcut keyed on which components are present (not on the system name) is folded on a table that defeats it
    ORTHO = ["c11", "c22", "c33", "c12", "c13", "c23", "c44", "c55", "c66"]
    extra = [k for k in SYMS21 if k not in ORTHO]
    subsets = [tuple(ORTHO)] + [tuple(ORTHO) + (a,) for a in extra] + [tuple(ORTHO) + c for c in itertools.combinations(extra, 2)]
    systems = systems + [("keys", ks) for ks in (subsets if getattr(ctx, "tier", "quick") == "thorough" else subsets[:1] + subsets[1:13] + subsets[13::3])]
    rnd = random.Random(20261004)
    n = 0
    for system in systems:
        keyset = None
        if isinstance(system, tuple):
            keyset, system = system[1], None
        if system is None or system == "triclinic":
            free = None
        else:
            R = relation_matrix(parse_relations((REPO / "cij" / "data" / "constraints" / system).read_text()))
            ns = R.nullspace()
        for trial in range(2 if keyset is None else 1):
            n += 1
            if keyset is not None:
                vals = {k: sp.Rational(rnd.randint(5, 40) * rnd.choice((-1, 1)), 7) for k in keyset}
            elif system is None or system == "triclinic":
                vals = {k: sp.Rational(rnd.randint(-40, 40), 7) for k in SYMS21}
            else:
                vec = sum((sp.Rational(rnd.randint(1, 60), rnd.randint(3, 11)) * v for v in ns), sp.zeros(21, 1))
                vals = {k: vec[i] for i, k in enumerate(SYMS21) if vec[i] != 0}
            for k in ("c11", "c22", "c33", "c44", "c55", "c66"):        # make it comfortably invertible (strictly diagonally dominant), with every non-vanishing compliance
                if k in vals:                                           # - second-order couplings included - far above the 1e-8 below which the code treats a component as absent
                    vals[k] = abs(vals[k]) + 60
            # re-impose the relations after strengthening the diagonal: project by averaging related diagonal entries
            if system not in (None, "triclinic"):
                fixed = dict(vals)
                sol = sp.Matrix([fixed.get(k, 0) for k in SYMS21])
                # least-change projection onto the null space (exact): x - R^T (R R^T)^-1 R x
                Rm = R
                if Rm.rows:
                    Rr = Rm.T.columnspace()
                    Rm2 = sp.Matrix.hstack(*Rr).T if Rr else Rm
                    sol = sol - Rm2.T * (Rm2 * Rm2.T).inv() * Rm2 * sol
                vals = {k: sol[i] for i, k in enumerate(SYMS21) if sol[i] != 0}
            keys = sorted(vals)
            ev, calc, vol = setup(ctx, model, keys=keys)
            calc.attrs["modulus_adiabatic"] = DictV({KeyObj(k): vals[k] for k in keys})
            calc.attrs["config"] = DictV({"elast": DictV({"settings": DictV({"symmetry": DictV({"system": system} if system else {})})})})
            del calc.attrs["_compliances"]
            try:
                ev.call_def(f, model.mods["cij.core.calculator"], ref, [calc], {})
            except RaisedV as e:
                ctx.violation(f"compliances.{system}.raises", w, "compliances are computed", f"raises {e.exc_name}", f"_calculate_compliances raises {e.exc_name} for system {system}" + (f" with components {','.join(keyset)}" if keyset else ""))
                continue
            M = sp.zeros(6, 6)
            for k in keys:
                i, j = int(k[1]) - 1, int(k[2]) - 1
                M[i, j] = M[j, i] = vals[k]
            S = M.inv()
            comp = calc.attrs.get("_compliances")
            bad = []
            for i in range(6):
                for j in range(i, 6):
                    kk = KeyObj(f"c{i + 1}{j + 1}")
                    got = comp.d.get(kk) if isinstance(comp, DictV) else None
                    if S[i, j] == 0:
                        if got is not None and sp.sympify(got) != 0:
                            bad.append(f"s{i + 1}{j + 1} = {got}, exact 0")
                    elif got is None or sp.simplify(sp.sympify(got) - S[i, j]) != 0:
                        bad.append(f"s{i + 1}{j + 1} = {got}, exact {S[i, j]}")
            label = f"system {system}" if keyset is None else "no system, tabulated components orthotropic nine" + "".join("+" + k for k in keyset[9:])
            ctx.check(not bad, f"{label}, generic point {trial + 1}: stored compliances = inverse of the full stiffness", w,
                      expected="S = C^-1 on all 21 components", found="; ".join(bad[:3]) or "exact",
                      explanation=f"for crystal system {system} the reported compliances are not the inverse of the reported stiffness "
                                  f"(a shortcut drops a coupling that this system / this set of tabulated components does not forbid)",
                      key=f"compliances.{system}" if keyset is None else "compliances.keys." + "+".join(keyset[9:]))
    ctx.extra["compliance_points"] = n


def r_getattr(ctx, model):
    """decision table of CijVolumeBaseInterface.__getattr__ on the finite name space"""
    ev, calc, vol = setup(ctx, model)
    ref = f"{VOLBASE}.__getattr__"
    f = model.func(ref)
    w = model.where(ref, f)
    n = 0
    bad = []
    pairs = [f"{a}{b}" for a in range(1, 7) for b in range(1, 7)] + ["1122", "2311", "1212", "1323"]
    for digits in pairs:
        canon = voigt_canon(digits)
        for us in ("", "_"):
            for suf, store in (("", "CAD"), ("s", "CAD"), ("t", "CIS")):
                n += 1
                name = f"c{us}{digits}{suf}"
                try:
                    got = as_sym(ev.get_attr(vol, name))
                except RaisedV as e:
                    got = f"raise {e.exc_name}"
                want = sp.Symbol(f"{store}_{canon}", real=True)
                if got != want:
                    bad.append(f"{name} -> {got} (want {want})")
            for suf in ("", "s"):
                n += 1
                name = f"s{us}{digits}{suf}"
                try:
                    got = as_sym(ev.get_attr(vol, name))
                except RaisedV as e:
                    got = f"raise {e.exc_name}"
                want = sp.Symbol(f"SAD_{canon}", real=True)
                if got != want:
                    bad.append(f"{name} -> {got} (want {want})")
    for name in ("c17", "c70", "x11", "c1", "c123", "c11x", "k12", "c4411"):
        n += 1
        try:
            got = ev.get_attr(vol, name)
            bad.append(f"{name} -> {got} (want AttributeError)")
        except RaisedV as e:
            if not e.exc_name.endswith("AttributeError"):
                bad.append(f"{name} -> raise {e.exc_name} (want AttributeError)")
    # keys that are not available raise AttributeError
    ev2, calc2, vol2 = setup(ctx, model, keys=["c11", "c12", "c44"])
    for name in ("c13", "c66t", "s55"):
        n += 1
        try:
            got = ev2.get_attr(vol2, name)
            bad.append(f"{name} with keys {{c11,c12,c44}} -> {got} (want AttributeError)")
        except RaisedV as e:
            if not e.exc_name.endswith("AttributeError"):
                bad.append(f"{name} -> raise {e.exc_name}")
    ctx.check(not bad, f"__getattr__ dispatch table ({n} names)", w,
              expected="c..t -> isothermal; c..[s] -> adiabatic; s..[s] -> compliance; canonical key; else AttributeError",
              found="; ".join(bad[:8]) or f"{n} names as required",
              explanation="attribute-style lookup of c_ij / s_ij resolves a name to the wrong tensor or component",
              key="getattr.table")
    ctx.extra["getattr_names_enumerated"] = n


def r_velocities(ctx, model):
    ev, calc, vol = setup(ctx, model)
    ref = tensor_reference()
    K, G = ref["bulk_modulus_voigt_reuss_hill"], ref["shear_modulus_voigt_reuss_hill"]
    kms = U.UNIT_TABLE["km"] / U.s
    want = {"primary_velocities": (K + sp.Rational(4, 3) * G) * AU * V * U.NA / CELLMASS / kms ** 2,
            "secondary_velocities": G * AU * V * U.NA / CELLMASS / kms ** 2}
    for name, w2 in want.items():
        owner, f, _ = model.find_member(VOLBASE, name)
        if f is None:
            raise AnalysisError(f"anchor vanished: {VOLBASE}.{name}")
        got = as_sym(ev.get_attr(vol, name))
        is_root = isinstance(got, sp.Pow) and got.exp == sp.Rational(1, 2) or (isinstance(got, sp.Mul) and all(
            (isinstance(a, sp.Pow) and a.exp in (sp.Rational(1, 2), sp.Rational(-1, 2))) or a.is_positive for a in got.args))
        ok = is_zero(sp.expand(got ** 2) - sp.expand(w2)) and is_root
        ctx.check(ok, name, model.where(f"{owner}.{name}", f),
                  expected=f"sqrt({'(K_VRH + 4/3 G_VRH)' if name.startswith('primary') else 'G_VRH'} * V * N_A / cellmass) in km/s",
                  found=str(got)[:300], explanation=f"{name}: rho*v^2 does not equal the modulus with rho = M/(N_A V), or "
                                                     f"the unit is not km/s (residual {short(got ** 2 / w2)})", key=name)
    owner, f, _ = model.find_member(VOLBASE, "mass")
    got = as_sym(ev.get_attr(vol, "mass"))
    wantm = CELLMASS / U.NA / U.kg
    ctx.check(is_zero(got - wantm), "mass", model.where(f"{owner}.mass", f), expected="cellmass/N_A in kg", found=str(got),
              explanation="mass per cell is not cellmass [g/mol] / N_A expressed in kg", key="mass")


RULES = [
    ("R07.1-6", "six Voigt/Reuss/Hill averages equal the forms generated from the tensor definitions", r_vrh),
    ("R07.7", "compliances: symmetric assembly of the adiabatic tensor, inversion, canonical-key storage", r_compliances),
    ("R07.7b", "compliances = inverse of the full stiffness for every configured crystal system (exact arithmetic at generic points)", r_compliances_systems),
    ("R07.8", "__getattr__ decision table over the finite name space", r_getattr),
    ("R07.9", "velocities and mass by quantity calculus (km/s, kg)", r_velocities),
]
