"""C15 — output files carry the in-memory results on the requested grids, units and names."""
from __future__ import annotations

import ast
import re

import sympy as sp
import yaml

from .. import units as U
from ..anf import is_zero, short
from ..facts import (qha_attr_hook, physics_seeds, tensor_seeds, KeyObj, KEYS21, CALC, VOLBASE, PRSBASE, V, T, PTV, PDES, VTP)
from ..fillmodel import PathV, FileV
from ..libsum import lib_func, positional_params
from ..model import dotted_name, src
from ..report import AnalysisError, REPO, Where
from ..sym import Ev, Obj, Tup, DictV, RaisedV, as_sym, is_sym
from .C06 import v2p_intrinsic, conv

AU = U.Ry / U.bohr ** 3
GPA = U.UNIT_TABLE["GPa"]
ANG3 = U.UNIT_TABLE["angstrom"] ** 3
KMS = U.UNIT_TABLE["km"] / U.s
WR = "cij.io.output.results_writer"
RULES_FILE = REPO / "cij" / "data" / "output" / "writer_rules.yml"

LEVEL = "other"
TECHNIQUE = "static analysis: partial evaluation of ResultsWriter/write_table on every keyword of writer_rules.yml x both bases with the qha writers as capturing atoms; registry/data agreement rules"
EXPLANATION = (
    "Static analysis decides, by folding ResultsWriter.write for every keyword and alias of the packaged rules on both "
    "interfaces with qha's save_x_tp/save_x_tv as capturing atoms bound through their installed signatures: the value "
    "written is the in-memory quantity of the keyword's property converted from its true internal unit to the documented "
    "unit (GPa, A^3, km/s) with no unit symbol left over; row labels are the temperature array and column labels the "
    "requested pressures in GPa / grid volumes in A^3; file names follow '<var>_<base>_<unit>.txt' with base tp/tv, unit "
    "suffix matching the unit, component digits and s/t matching key and tensor; aliases give identical calls; keywords "
    "are unique; user fname/unit overrides are honoured; write_output pairs each section with the like-named interface; "
    "the installed qha writers drop exactly the four guard temperatures.")
NOT_DECIDED = "printed precision and label rounding (pandas formatting inside qha)."
ASSUMPTIONS = ["T-LIB: qha save_x_tp(df, t, desired_pressures_gpa, p_sample_gpa, outfile_name), save_x_tv(x, t, volume_grid, t_sample, outfile_name); both use .iloc[:-4]",
               "internal units: moduli and pressures Ry/bohr^3, volumes bohr^3, velocities km/s (C01-C07)"]

DOC_UNIT = {"GPa": (GPA, "gpa"), "angstrom^3": (ANG3, "ang3"), "km/s": (KMS, "km_s")}
TRUE_INTERNAL = {"modulus_adiabatic": AU, "modulus_isothermal": AU, "bulk_modulus_voigt": AU, "bulk_modulus_reuss": AU,
                 "bulk_modulus_voigt_reuss_hill": AU, "shear_modulus_voigt": AU, "shear_modulus_reuss": AU,
                 "shear_modulus_voigt_reuss_hill": AU, "primary_velocities": KMS, "secondary_velocities": KMS,
                 "volumes": U.bohr ** 3, "pressures": AU}
ONLY = {"volumes": "tp", "pressures": "tv"}


def to_val(x):
    if isinstance(x, dict):
        return DictV({k: to_val(v) for k, v in x.items()})
    if isinstance(x, list):
        return Tup([to_val(v) for v in x], "list")
    if isinstance(x, (int, float)) and not isinstance(x, bool):
        return sp.nsimplify(x, rational=True)
    return x


class CallLog(list):
    """the writer calls of one fold, plus what else was observed on the writing path"""

    def __init__(self):
        super().__init__()
        self.meta = {}


def setup(ctx, model):
    seeds, intr, calc = physics_seeds(model)
    tensor_seeds(calc)
    calls = CallLog()
    calls_meta = calls.meta

    def saver(fn):
        names, _ = positional_params(lib_func("qha/basic_io/out.py", fn))

        def f(ev, a, k):
            b = dict(zip(names, a))
            b.update(k)
            if len(a) > len(names) or set(b) != set(names):
                raise AnalysisError(f"{fn} called with arguments that do not bind its installed signature {names}")
            calls.append((fn, b))
            return None
        return f

    from ..fsmodel import FS, FileV as FileV2, TextOf
    fs = FS(files={"output/writer_rules.yml": RULES_FILE.read_text()})

    def yaml_load(check=None):
        def f_(ev, a, k):
            check(k) if check else k.all()
            src_ = a[0]
            if isinstance(src_, FileV2):
                if src_.path.anchor != "packaged" or src_.lines is None:
                    raise AnalysisError(f"YAML rules read from {src_.path!r}")
                text = "".join(src_.lines[src_.pos:])
            elif isinstance(src_, str):
                text = src_
            else:
                raise AnalysisError("yaml loader applied to something that is not the opened rules file / its text")
            return to_val(yaml.safe_load(text))
        return f_

    from ..sym import yaml_kw
    intr.update(fs.intrinsics())

    # tests on the values being written, made by the code that enumerates and writes the files (not by the code computing them):
    # recorded so that R15.2,5 can report a file whose existence depends on its content
    value_tests = []

    def value_test(name):
        def f_(ev, a, k):
            ref = ev.stack[-1][0] if getattr(ev, "stack", None) else ""
            if ref.startswith(WR + ":") or ".write_table" in ref or ".write_variables" in ref or ".write_output" in ref or "ModulusInterface." in ref:
                value_tests.append((name, ref))
                k.all() if hasattr(k, "all") else None
                return False
            from ..sym import LIB
            if "numpy." + name not in LIB:
                raise AnalysisError(f"call to numpy.{name} has no transfer function (T-LIB)")
            return LIB["numpy." + name](ev, a, k, None, None)
        f_.kw = None
        return f_
    for nm in ("allclose", "isclose", "any", "all", "count_nonzero", "array_equal", "array_equiv", "nonzero", "flatnonzero"):
        intr["numpy." + nm] = value_test(nm)
    calls_meta["value_tests"] = value_tests
    intr.update({"qha.v2p.v2p": v2p_intrinsic, "qha.basic_io.out.save_x_tp": saver("save_x_tp"), "qha.basic_io.out.save_x_tv": saver("save_x_tv"),
                 "yaml.safe_load": yaml_load(), "yaml.full_load": yaml_load(), "yaml.load": yaml_load(yaml_kw)})
    ev = Ev(model, seeds, intr, attr_hook=qha_attr_hook, ctx=ctx)
    vol = ev.construct(VOLBASE, [calc], {})
    prs = ev.construct(PRSBASE, [calc], {})
    calc.attrs["volume_based_result"] = vol
    calc.attrs["pressure_based_result"] = prs
    return ev, calc, vol, prs, calls


def load_rules():
    rules = yaml.safe_load(RULES_FILE.read_text())
    if not isinstance(rules, list) or not rules:
        raise AnalysisError("writer_rules.yml is not a non-empty list")
    return rules


def classify(text):
    """(quantity, variant) named by a keyword / property / file pattern / description"""
    t = re.sub(r"\(.*?\)", "", text).replace("{base}", "").replace("{ij}", "").replace(".txt", "")
    low = t.lower()
    words = set(re.split(r"[^A-Za-z]+", t))
    lw = set(re.split(r"[^a-z]+", low))
    q = v = None
    if "bulk" in lw or words & {"B", "Bm", "bm"}:
        q = "bulk"
    elif "shear" in lw or "G" in words:
        q = "shear"
    elif "primary" in lw or low.startswith(("v_p", "vp")):
        q = "vp"
    elif "secondary" in lw or low.startswith(("v_s", "vs")):
        q = "vs"
    elif "adiabatic" in lw or low.startswith(("cij_s", "cs_")) or low in ("cij", "cs__gpa"):
        q = "cij_s"
    elif "isothermal" in lw or low.startswith(("cij_t", "ct_")):
        q = "cij_t"
    elif "volumes" in lw or "volume" in lw or low in ("v", "v__ang3"):
        q = "volume"
    elif "pressures" in lw or "pressure" in lw or low in ("p", "p__gpa"):
        q = "pressure"
    if q in ("bulk", "shear"):
        if "VRH" in words or "hill" in lw:
            v = "vrh"
        elif "V" in words or ("voigt" in lw and "reuss" not in lw):
            v = "voigt"
        elif "R" in words or "reuss" in lw:
            v = "reuss"
    return q, v


def r_registry(ctx, model):
    rules = load_rules()
    w = Where("cij/data/output/writer_rules.yml", "", 0)
    ctx.fn("cij/data/output/writer_rules.yml")
    seen = {}
    dup = []
    for r in rules:
        for k in r["keywords"]:
            if k in seen:
                dup.append(k)
            seen[k] = r["prop"]
    ctx.check(not dup, f"no keyword occurs in two rules ({len(seen)} keywords, {len(rules)} rules)", w, expected="unique keywords", found=f"duplicates {dup}",
              explanation="a keyword is registered by two rules: the later silently replaces the earlier", key="registry.unique")
    bad = []
    for r in rules:
        need = {"keywords", "fname_pattern", "prop", "unit", "unit_internal", "var_type"}
        if not need <= set(r):
            bad.append(f"{r.get('prop')}: missing {sorted(need - set(r))}")
            continue
        if r["var_type"] not in ("value", "ij_value"):
            bad.append(f"{r['prop']}: var_type {r['var_type']}")
        ph = set(re.findall(r"\{(\w+)\}", r["fname_pattern"]))
        if not ph <= {"base", "ij"} or ("ij" in ph) != (r["var_type"] == "ij_value") or "base" not in ph:
            bad.append(f"{r['prop']}: placeholders {sorted(ph)} for {r['var_type']}")
        if r["prop"] not in TRUE_INTERNAL:
            bad.append(f"prop {r['prop']} unknown")
        kind = "s" if "adiabatic" in r["prop"] else ("t" if "isothermal" in r["prop"] else None)
        if kind:
            wrongk = [k for k in r["keywords"] if (k.endswith("_s") or k.startswith("adiabatic")) != (kind == "s") and (k.endswith(("_s", "_t")) or "adiabatic" in k or "isothermal" in k)]
            if wrongk or not re.search(r"\}" + kind + "_", r["fname_pattern"]):
                bad.append(f"{r['prop']}: keywords {wrongk} / pattern {r['fname_pattern']} disagree on adiabatic vs isothermal")
    for r in rules:
        names = {"prop": r["prop"], "pattern": r["fname_pattern"], "description": r.get("description", r["prop"])}
        for k in r["keywords"]:
            names[f"keyword {k}"] = k
        cls = {nm: classify(t) for nm, t in names.items()}
        ref = cls["prop"]
        if ref[0] is None:
            bad.append(f"prop {r['prop']} is not a documented quantity")
        wrong = {nm: c for nm, c in cls.items() if c != ref and not (nm == "description" and c[0] in (None, {"volume": "volume", "pressure": "pressure"}.get(ref[0])) and False)}
        # descriptions of the tensor rules say 'elastic modulus' (no s/t word needed beyond adiabatic/isothermal)
        wrong = {nm: c for nm, c in wrong.items() if not (c[0] is None and nm == "description")}
        if wrong:
            bad.append(f"{r['prop']} {ref}: disagreeing {wrong}")
    ctx.check(not bad, "rule fields, var_type, placeholders, adiabatic/isothermal consistency", w, expected="well-formed rules", found="; ".join(bad[:4]) or f"{len(rules)} rules well-formed",
              explanation="a writer rule is malformed or mixes the adiabatic and isothermal tensors", key="registry.fields")
    ctx.floor("writer rules", len(rules), 10)
    # props resolve on the interfaces they are offered for
    for r in rules:
        for base, cref in (("tv", VOLBASE), ("tp", PRSBASE)):
            if ONLY.get(r["prop"], base) != base:
                continue
            owner, f, kind = model.find_member(cref, r["prop"])
            ctx.check(f is not None and kind in ("property", "lazy"), f"{r['prop']} resolves on the {base} interface", w, expected="a property", found=str(kind),
                      explanation=f"keyword {r['keywords'][0]} names a property the {base} interface does not define", key=f"prop.{r['prop']}.{base}")


def run_write(ctx, model, base_name, config):
    ev, calc, vol, prs, calls = setup(ctx, model)
    base = vol if base_name == "tv" else prs
    writer = ev.construct(f"{WR}:ResultsWriter", [base], {})
    for c in (config if isinstance(config, list) else [config]):
        ev.call(ev.get_attr(writer, "write"), [c], {})
    return ev, calc, vol, prs, calls


def sig_of(calls):
    return sorted((fn, str(b["outfile_name"]), sp.srepr(sp.sympify(as_sym(b.get("df", b.get("x")))))) for fn, b in calls)


def r_sequence(ctx, model):
    """several keywords written in one run (same interface, same writer) give the files of the separate runs, in any order"""
    w = model.where(f"{WR}:ResultsWriter.write")
    seqs = [["cij_s", "cij_t"], ["cij_t", "cij_s"], ["bm_V", "bm_R", "bm_VRH", "G_V", "G_R", "G_VRH"], ["vp", "vs", "cij"], ["cij_t", "v_p", "cij_s"]]
    for base_name in ("tp", "tv"):
        single = {}
        for seq in seqs:
            for kw in seq:
                if kw not in single:
                    single[kw] = sig_of(run_write(ctx, model, base_name, kw)[4])
            both = sig_of(run_write(ctx, model, base_name, list(seq))[4])
            want = sorted(x for kw in seq for x in single[kw])
            ctx.check(both == want, f"{base_name}: writing {seq} in one run = writing each alone", w, expected=f"{len(want)} files with their own content",
                      found=f"{len(both)} files; {sum(1 for a, b in zip(both, want) if a != b)} differ",
                      explanation=f"on the {base_name} interface the content of a file depends on which keywords were written before it in the same run "
                                  f"(e.g. adiabatic and isothermal tables share a cache)", key=f"sequence.{base_name}.{'-'.join(seq)}")
    # write_output twice = once (no state carried between calls)
    ev, calc, vol, prs, calls = setup(ctx, model)
    calc.attrs["config"] = DictV({"output": DictV({"pressure_base": Tup(["cij_t", "cij_s", "v"], "list"), "volume_base": Tup(["p", "cij"], "list")})})
    f = model.func(f"{CALC}.write_output")
    ev.call_def(f, model.mods["cij.core.calculator"], f"{CALC}.write_output", [calc], {})
    first = sig_of(calls)
    del calls[:]
    ev.call_def(f, model.mods["cij.core.calculator"], f"{CALC}.write_output", [calc], {})
    ctx.check(sig_of(calls) == first and len(first) == 21 * 3 + 2, "write_output called twice writes the same files with the same content", model.where(f"{CALC}.write_output", f),
              expected=f"{21 * 3 + 2} files, identical both times", found=f"{len(first)} then {len(calls)} files",
              explanation="a second write_output in the same process produces different files", key="write_output.twice")


def expected_value(ev, vol, prs, base_name, prop, key=None):
    base = vol if base_name == "tv" else prs
    v = ev.get_attr(base, prop)
    if key is not None:
        v = ev.subscript(v, KeyObj(key))
    return as_sym(v)


def r_write(ctx, model):
    rules = load_rules()
    w = model.where(f"{WR}:ResultsWriterRule.write")
    n = 0
    for r in rules:
        prop = r["prop"]
        for base_name in ("tv", "tp"):
            if ONLY.get(prop, base_name) != base_name:
                continue
            ref_calls = None
            for kw in r["keywords"]:
                n += 1
                try:
                    ev, calc, vol, prs, calls = run_write(ctx, model, base_name, kw)
                except RaisedV as e:
                    ctx.violation(f"{kw}.{base_name}.raises", w, "the keyword is written", f"raises {e.exc_name}", f"writing keyword {kw!r} on the {base_name} interface raises {e.exc_name}")
                    continue
                sig = [(fn, str(b["outfile_name"]), sp.srepr(sp.sympify(as_sym(b.get("df", b.get("x")))))) for fn, b in calls]
                if ref_calls is None:
                    ref_calls = sig
                    problems = check_calls(ev, vol, prs, base_name, r, calls)
                    tests = sorted({f"numpy.{nm} in {ref.split(':')[-1]}" for nm, ref in calls.meta.get("value_tests", [])})
                    if tests:
                        problems.insert(0, f"which files are written is decided by a test on the values ({', '.join(tests)}): a component is available whatever its values")
                    ctx.check(not problems, f"{kw} on {base_name}: files, values, units, labels", w,
                              expected=f"{r['fname_pattern']} with {prop} in {r['unit']}", found="; ".join(problems[:3]) or f"{len(calls)} file(s) as required",
                              explanation=f"output of keyword {kw!r} on the {base_name} interface is wrong: " + "; ".join(problems[:2]), key=f"{kw}.{base_name}")
                else:
                    ctx.check(sig == ref_calls, f"alias {kw} on {base_name} = {r['keywords'][0]}", w, expected="identical files and content", found=f"{len(sig)} vs {len(ref_calls)} calls",
                              explanation=f"alias {kw!r} does not produce the same files as {r['keywords'][0]!r}", key=f"alias.{kw}.{base_name}")
    ctx.extra["keyword_base_pairs_folded"] = n
    ctx.floor("keyword x base pairs", n, 50)


def requested_grid(e):
    """labels rebuilt from the settings: qha's desired pressures ARE P_MIN + DELTA_P * (0 .. NTV-1) GPa (qha.tools.arange(P_MIN, NTV, DELTA_P), installed
    source) and there are NTV of them - rewritten to the atom PDES so that both spellings compare equal"""
    from ..facts import PMIN_S, DP_S, NTV_S
    e = sp.sympify(e)
    LEN, ARANGE = sp.Function("LEN"), sp.Function("ARANGE")
    e = e.replace(lambda x: getattr(x, "func", None) is not None and getattr(x.func, "__name__", "") == "LEN" and PDES in x.free_symbols and len(x.free_symbols - set(U.UNIT_SYMBOLS) - {PDES}) == 0,
                  lambda x: NTV_S)
    grid = PMIN_S + DP_S * ARANGE(NTV_S)
    w_ = sp.Wild("w_", exclude=[PMIN_S, DP_S])
    e = sp.expand(e)
    if e.has(ARANGE(NTV_S)):
        coeff = e.coeff(ARANGE(NTV_S))
        rest = sp.expand(e - coeff * ARANGE(NTV_S))
        if coeff != 0 and sp.simplify(coeff / DP_S).is_number is not None and sp.simplify(rest * DP_S - coeff * PMIN_S) == 0:
            return sp.simplify(coeff / DP_S) * PDES / GPA
    return e


def check_calls(ev, vol, prs, base_name, r, calls):
    problems = []
    prop = r["prop"]
    doc_unit, suffix = DOC_UNIT.get(r["unit"], (None, None))
    if doc_unit is None:
        return [f"documented unit {r['unit']} is not one of GPa, angstrom^3, km/s"]
    keys = list(KEYS21) if r["var_type"] == "ij_value" else [None]
    want_fn = "save_x_tv" if base_name == "tv" else "save_x_tp"
    if len(calls) != len(keys):
        problems.append(f"{len(calls)} files written, expected {len(keys)} (one per available component)" if keys[0] else f"{len(calls)} files written, expected 1")
    by_name = {}
    for fn, b in calls:
        by_name[str(b["outfile_name"])] = (fn, b)
    for key in keys:
        fname = r["fname_pattern"].format(base=base_name, ij=key[1:] if key else "")
        if not fname.endswith(f"_{base_name}_{suffix}.txt"):
            problems.append(f"pattern {r['fname_pattern']} does not end in _<base>_{suffix}.txt")
        if fname not in by_name:
            problems.append(f"file {fname} not written (got {sorted(by_name)[:3]})")
            continue
        fn, b = by_name[fname]
        if fn != want_fn:
            problems.append(f"{fname} written with {fn}")
        internal = expected_value(ev, vol, prs, base_name, prop, key)
        want = internal * TRUE_INTERNAL[prop] / doc_unit
        got = as_sym(b.get("df", b.get("x")))
        if not is_zero(got - want):
            problems.append(f"{fname}: value is not {prop} in {r['unit']} (ratio {short(sp.cancel(got / want) if want != 0 else got, 120)})")
        t_want = T / U.K
        if not is_zero(as_sym(b["t"]) - t_want):
            problems.append(f"{fname}: row labels are not the temperature array")
        if base_name == "tp":
            lab = requested_grid(as_sym(b["desired_pressures_gpa"]))
            smp = requested_grid(as_sym(b["p_sample_gpa"]))
            if not is_zero(lab - PDES / GPA) or not is_zero(smp - PDES / GPA):
                problems.append(f"{fname}: column labels are not the requested pressures in GPa ({short(lab, 80)})")
        else:
            lab = as_sym(b["volume_grid"])
            if not is_zero(lab - V / ANG3):
                problems.append(f"{fname}: column labels are not the grid volumes in A^3 ({short(lab, 80)})")
            if not is_zero(as_sym(b["t_sample"]) - t_want):
                problems.append(f"{fname}: temperature sample is not the temperature array")
    return problems


def r_override(ctx, model):
    w = model.where(f"{WR}:ResultsWriterRule.write_variable")
    cfg = DictV({"keyword": "bm_V", "fname": "custom_name.dat", "unit": "kbar"})
    ev, calc, vol, prs, calls = run_write(ctx, model, "tp", cfg)
    ok = len(calls) == 1 and str(calls[0][1]["outfile_name"]) == "custom_name.dat"
    got = as_sym(calls[0][1]["df"]) if calls else sp.Integer(0)
    want = expected_value(ev, vol, prs, "tp", "bulk_modulus_voigt") * AU / U.UNIT_TABLE["kbar"]
    ctx.check(ok and is_zero(got - want), "user fname and unit in the output entry override the rule", w, expected="custom_name.dat in kbar",
              found=f"{[str(c[1]['outfile_name']) for c in calls]}; unit ratio {short(sp.cancel(got / want), 80) if calls else ''}",
              explanation="a user-supplied file name or unit for an output variable is ignored", key="override")
    cfg = DictV({"keyword": "cij", "unit": "kbar"})
    ev, calc, vol, prs, calls = run_write(ctx, model, "tv", cfg)
    ok = len(calls) == 21 and all(is_zero(as_sym(b["x"]) - expected_value(ev, vol, prs, "tv", "modulus_adiabatic", re.search(r"c(\d\d)s", str(b["outfile_name"])).group(0)[:3]) * AU / U.UNIT_TABLE["kbar"])
                                  for fn, b in calls if re.search(r"c(\d\d)s", str(b["outfile_name"])))
    ctx.check(ok, "unit override for a per-component variable", model.where(f"{WR}:ResultsWriterRule.write_ij_variable"), expected="21 files in kbar", found=f"{len(calls)} files",
              explanation="a unit override for the elastic-tensor output is ignored", key="override.ij")


def r_override_every_rule(ctx, model):
    """a unit override is honoured by EVERY scalar rule, also by those whose packaged unit equals their internal unit (the velocities): the values written with
    {keyword, unit: <another unit of the same dimension>} are the values written without the override times the ratio of the two units, under the same name"""
    import yaml as _yaml
    from ..report import REPO
    rules = _yaml.safe_load((REPO / "cij" / "data" / "output" / "writer_rules.yml").read_text())
    other = {"GPa": "kbar", "km/s": "m/s", "angstrom^3": "nm^3"}
    w = model.where(f"{WR}:ResultsWriterRule.write_variable")
    n = 0
    for r in rules:
        if r.get("var_type", "value") != "value" or r.get("unit") not in other:
            continue
        kw = r["keywords"][0]
        alt = other[r["unit"]]
        for base_name in ("tv", "tp"):
            try:
                plain = run_write(ctx, model, base_name, kw)[4]
            except RaisedV as e_:
                if e_.exc_name == "AttributeError":
                    continue            # this interface does not offer the quantity (volumes on the (T, V) grid ...): nothing to override
                raise
            over = run_write(ctx, model, base_name, DictV({"keyword": kw, "unit": alt}))[4]
            n += 1
            if len(plain) != 1 or len(over) != 1:
                ctx.check(False, f"{kw} on {base_name} with unit {alt}", w, expected="one file", found=f"{len(plain)} / {len(over)} files", explanation="an entry with a unit override writes no file or several", key=f"override.unit.{kw}.{base_name}")
                continue
            a_, b_ = as_sym(plain[0][1].get("df", plain[0][1].get("x"))), as_sym(over[0][1].get("df", over[0][1].get("x")))
            ratio = U.parse_unit_string(r["unit"]) / U.parse_unit_string(alt)
            same_name = str(plain[0][1]["outfile_name"]) == str(over[0][1]["outfile_name"])
            ctx.check(is_zero(b_ - a_ * ratio) and same_name, f"{kw} on {base_name}: unit override {r['unit']} -> {alt}", w, expected=f"the same table times {ratio}, same file name",
                      found=f"ratio {short(sp.cancel(b_ / a_), 60)}; names {plain[0][1]['outfile_name']} / {over[0][1]['outfile_name']}",
                      explanation=f"the unit requested for {kw!r} in an output entry is ignored (the table is written in {r['unit']} whatever unit the entry asks for) or changes the file name",
                      key=f"override.unit.{kw}.{base_name}")
    ctx.floor("scalar writer rules with a unit override scenario", n, 16)


def r_output(ctx, model):
    """write_output pairs 'pressure_base'/'volume_base' with the like-named interface"""
    ref = f"{CALC}.write_output"
    f = model.func(ref)
    seeds, intr, calc = physics_seeds(model)
    log = []
    vol = Obj(VOLBASE, {"calculator": calc}, label="VOL")
    prs = Obj(PRSBASE, {"calculator": calc}, label="PRS")
    calc.attrs["volume_based_result"] = vol
    calc.attrs["pressure_based_result"] = prs
    # write_variables of either interface (wherever the method is defined: the class itself, a shared base or a mixin)
    for base_ref in (VOLBASE, PRSBASE):
        owner, wf, _ = model.find_member(base_ref, "write_variables")
        if wf is None:
            raise AnalysisError(f"anchor vanished: {base_ref}.write_variables")
        intr[f"{owner}.write_variables"] = lambda ev, a, k: log.append(("tv" if a[0].cls == VOLBASE else "tp" if a[0].cls == PRSBASE else a[0].cls, a[1]))
    # sections as a user writes them: plain keywords, aliases of one rule, and the same quantity requested again with options
    PB = Tup(["cij", DictV({"keyword": "cij_s", "unit": "kbar", "fname": "cij_kbar.txt"}), "v", "V", "bm_VRH"], "list")
    VB = Tup(["p", DictV({"keyword": "p", "unit": "kbar", "fname": "p_kbar.txt"}), "bm_V"], "list")
    ev0_, _c0, _v0, _p0, _calls0 = setup(ctx, model)
    base_intr = dict(ev0_.intr)
    base_intr.update(intr)

    def entries(v):
        items = list(v.items) if isinstance(v, Tup) else [v]
        return tuple((("dict",) + tuple(sorted((kk, str(vv)) for kk, vv in i.d.items()))) if isinstance(i, DictV) else i for i in items)
    for cfg, want in (({"pressure_base": PB, "volume_base": VB}, [("tp", entries(PB)), ("tv", entries(VB))]), ({"pressure_base": PB}, [("tp", entries(PB))]),
                      ({"volume_base": VB}, [("tv", entries(VB))]), ({}, [])):
        del log[:]
        calc.attrs["config"] = DictV({"output": DictV(cfg)})
        ev = Ev(model, seeds, base_intr, ctx=ctx)
        ev.call_def(f, model.mods["cij.core.calculator"], ref, [calc], {})
        got = [(b, entries(v)) for b, v in log]
        ctx.check(sorted(got) == sorted(want), f"write_output with sections {sorted(cfg)}: every entry of a section reaches its interface, in order", model.where(ref, f),
                  expected=str(sorted(want))[:300], found=str(sorted(got))[:300],
                  explanation="an output section is written through the wrong interface, twice, or not at all - or entries of it (aliases, a second request "
                              "of the same quantity with other options) are dropped or reordered before they reach the writer", key=f"write_output.{'+'.join(sorted(cfg)) or 'none'}")
    # write_variables: one writer.write per entry, in order, on this interface
    for cref, nm in ((VOLBASE, "tv"), (PRSBASE, "tp")):
        owner_, wf, _ = model.find_member(cref, "write_variables")
        if wf is None:
            raise AnalysisError(f"anchor vanished: {cref}.write_variables")
        seen = []
        ev0, _c, _v, _p, _calls = setup(ctx, model)
        intr2 = dict(ev0.intr)
        intr2[f"{WR}:ResultsWriter.write"] = lambda ev, a, k: seen.append((a[0].attrs.get("base"), a[1]))
        ev = Ev(model, seeds, intr2, ctx=ctx)
        base = vol if nm == "tv" else prs
        # three entries with three different destinations (the same keyword asked for again under another file name and unit is a different file)
        again = DictV({"keyword": "p", "unit": "kbar", "fname": "p_kbar.txt"})
        ev.call_def(wf, model.mods[owner_.split(":")[0]], f"{owner_}.write_variables", [base, Tup(["p", "bm_V", again], "list")], {})
        def norm_entry(c):
            # a bare keyword and {keyword: <it>} are the same request
            if isinstance(c, DictV):
                items = tuple(sorted((str(kk), str(vv)) for kk, vv in c.d.items()))
                return items[0][1] if len(items) == 1 and items[0][0] == "keyword" else items
            return c
        ok = len(seen) == 3 and all(b is base for b, _ in seen) and [norm_entry(c) for _, c in seen] == ["p", "bm_V", norm_entry(again)]
        ctx.check(ok, f"{nm}.write_variables writes every entry through a writer bound to this interface", model.where(f"{owner_}.write_variables", wf),
                  expected="ResultsWriter(self).write(c) for each of: 'p', 'bm_V', {keyword: p, unit: kbar, fname: p_kbar.txt}", found=f"{len(seen)} writes: {[norm_entry(c) for _, c in seen]}"[:300],
                  explanation="an output entry is skipped (an entry that writes a file of its own is taken for a repetition of another), reordered or written through another interface",
                  key=f"write_variables.{nm}")
    # installed writers drop exactly four guard rows
    for fn in ("save_x_tp", "save_x_tv"):
        fd = lib_func("qha/basic_io/out.py", fn)
        sl = [s for s in ast.walk(fd) if isinstance(s, ast.Subscript) and isinstance(s.value, ast.Attribute) and s.value.attr == "iloc"]
        ok = any(src(s.slice).replace(" ", "") in ("(slice(None,-4,None),slice(None,None,None))", ":-4,:") or ":-4" in src(s).replace(" ", "") for s in sl)
        ctx.libfact(f"qha {fn}: {[src(s) for s in sl]}")
        ctx.check(ok, f"installed {fn} drops the last four temperature rows", Where("site-packages/qha/basic_io/out.py", fn, fd.lineno), expected=".iloc[:-4, :]",
                  found=str([src(s) for s in sl]), explanation="the qha writer no longer drops exactly the four guard temperatures cij adds", key=f"lib.{fn}.guard")


RULES = [
    ("R15.1,3,4,7", "writer-rule registry: unique keywords, fields, placeholders, adiabatic/isothermal consistency, props resolve", r_registry),
    ("R15.2,5", "every keyword and alias on both bases: file names, written value in the documented unit, labels (folded through write_table)", r_write),
    ("R15.6", "user fname / unit overrides", r_override),
    ("R15.6b", "unit override honoured by every scalar rule (including those whose packaged unit is their internal unit)", r_override_every_rule),
    ("R15.9", "keywords written in one run give the files of separate runs (any order); write_output twice = once", r_sequence),
    ("R15.8", "write_output / write_variables pairing; installed writers drop the four guard rows", r_output),
]
