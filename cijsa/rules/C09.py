"""C09 — fill refuses exactly when under-determined or inconsistent; never distorts data."""
from __future__ import annotations

import ast
import itertools
import json

import sympy as sp

from ..fillmodel import run_fill, Scenario, SYMS21, FILL
from ..model import dotted_name, src
from ..report import AnalysisError, REPO, Where

LEVEL = "other"
TECHNIQUE = "static analysis: partial evaluation of fill_cij over enumerated scenarios (decision tables), agreement rules"
EXPLANATION = (
    "Static analysis decides, by folding fill_cij over enumerated scenarios (lstsq outcome rank in {20,21}, residual in "
    "{0, atol, 1000}, both flags, file-system states, column spellings): refusal iff (rank < 21 and not ignore_rank) or "
    "(residual > residual_atol and not ignore_residuals), each flag disabling exactly its own refusal; the table is "
    "untouched when fill refuses; the relations file is bound on every path, a directory named like the system does "
    "not change which file is opened, a user file given instead of a system name is the file opened; column names match "
    "case-insensitively without duplicating columns; solved columns replace existing ones (dtype-independent); only "
    "modulus columns are overwritten or dropped; CLI options and schema keys agree with fill_cij's parameters.")
NOT_DECIDED = ("'exactly when' as a numerical rank statement, the residual semantics of lstsq, the sqrt(atol) bound on "
               "relation violation, invariance under column order (lstsq numerics).")
ASSUMPTIONS = ["T-LIB: numpy.linalg.lstsq returns (x, residuals, rank, s); rank 21 <=> the system determines all components",
               "T-LIB: pandas df.loc[:, k] = v writes into the existing column keeping its dtype; df[k] = v replaces it",
               "T-LIB: pathlib.Path.is_file() is false for directories and missing entries"]

COLS = ["V", "c11", "c12", "c44"]


def r_guards(ctx, model):
    w = model.where(FILL)
    n = 0
    bad = []
    untouched = []
    for rank, resid, ig_rank, ig_res in itertools.product((20, 21), (0, "atol", 1000), (False, True), (False, True)):
        n += 1
        sc = Scenario(system="cubic", columns=COLS, rank=rank, resid=resid,
                      kwargs={"ignore_rank": ig_rank, "ignore_residuals": ig_res})
        res = run_fill(model, sc, ctx)
        # a rank-deficient system has no residuals (numpy.linalg.lstsq returns an empty array then): only the rank refusal applies to it
        want_raise = (rank < 21 and not ig_rank) or (rank == 21 and resid == 1000 and not ig_res)
        got_raise = res[0] == "raise"
        if got_raise != want_raise or (got_raise and res[1] != "Warning"):
            bad.append(f"rank={rank} resid={resid} ignore_rank={ig_rank} ignore_residuals={ig_res}: "
                       f"{'raises ' + str(res[1]) if got_raise else 'accepts'} (want {'refusal' if want_raise else 'acceptance'})")
        if got_raise and dict(res[2].cols) != res[3]:
            untouched.append(f"rank={rank} resid={resid}: columns changed before the refusal")
        if sc.misfit_axis and not any("misfit" in b_ for b_ in bad):
            bad.append(f"the number compared with residual_atol is the squared misfit {sc.misfit_axis}, not the misfit of each volume over the equations (what lstsq reports)")
    # the same table with every one of the 21 components supplied (no shortcut past the consistency test)
    for rank, resid, ig_rank, ig_res in ((21, 1000, False, False), (21, 0, False, False), (21, 1000, False, True)):
        n += 1
        sc = Scenario(system="cubic", columns=["V"] + SYMS21, rank=rank, resid=resid, kwargs={"ignore_rank": ig_rank, "ignore_residuals": ig_res})
        res = run_fill(model, sc, ctx)
        want_raise = (resid == 1000 and not ig_res)
        if (res[0] == "raise") != want_raise or (res[0] == "ok" and sc.lstsq is None):
            bad.append(f"complete table, resid={resid} ignore_residuals={ig_res}: {'raises' if res[0] == 'raise' else 'accepts'}"
                       f"{' without solving' if sc.lstsq is None else ''} (want {'refusal' if want_raise else 'a solve'})")
    # sufficiency is a matter of rank, not of WHICH member of a family of equal components is supplied: tables that give a later member of each chain
    # of the relation file (c33 for c11 = c22 = c33, c66 and c12 instead of c11 for the hexagonal c66 = (c11 - c12) / 2) are as sufficient as the customary ones.
    # The rank of [supplied; relations] is computed here from the packaged file (exact rational arithmetic)
    from ..fillmodel import parse_relations, relation_matrix
    for system, cols in (("cubic", ["c33", "c23", "c66"]), ("cubic", ["c22", "c13", "c55"]), ("hexagonal", ["c12", "c66", "c13", "c33", "c44"]),
                         ("hexagonal", ["c22", "c66", "c23", "c33", "c55"]), ("tetragonal6", ["c22", "c12", "c23", "c33", "c55", "c66"])):
        rel = relation_matrix(parse_relations((REPO / "cij" / "data" / "constraints" / system).read_text()))
        sel = sp.Matrix([[1 if s_ == c_ else 0 for s_ in SYMS21] for c_ in cols])
        true_rank = sp.Matrix.vstack(sel, rel).rank()
        if true_rank != 21:
            raise AnalysisError(f"scenario table {cols} of {system} is not sufficient (rank {true_rank}): the scenario list is out of date with the relation files")
        n += 1
        sc = Scenario(system=system, columns=["V"] + cols, rank=21, resid=0, kwargs={"ignore_rank": False, "ignore_residuals": False})
        res = run_fill(model, sc, ctx)
        if res[0] == "raise":
            bad.append(f"{system} table {cols} (rank 21: sufficient) is refused with {res[1]}")
    ctx.check(not bad, f"refusal decision table ({n} cells)", w,
              expected="raise Warning iff (rank < 21 and not ignore_rank) or (residual > residual_atol and not ignore_residuals)",
              found="; ".join(bad[:4]) or f"{n} cells as required",
              explanation="fill_cij's refusals do not match the decision table of the property (a guard compares wrongly, a flag "
                          "disables the wrong refusal, or a refusal is missing)", key="guards.table")
    rc = getattr(sc, "rcond", None)
    try:
        rc_ok = rc is None or float(rc) <= 1e-14
    except (TypeError, ValueError):
        rc_ok = False
    ctx.check(rc_ok, "rank and residual come from a least-squares solve at machine-precision rcond", w,
              expected="numpy.linalg.lstsq(a, b) with rcond omitted, None, -1 or <= 1e-14", found=f"rcond = {rc}",
              explanation=f"fill_cij calls lstsq with rcond = {rc}: singular values below that fraction of the largest are treated as zero, "
                          "so the reported rank (the sufficiency refusal) and the solution depend on the scale of the relation rows",
              key="guards.rcond")
    ctx.check(not untouched, "table untouched when fill refuses", w, expected="no store into the table before both guards",
              found="; ".join(untouched[:3]) or "unchanged in every refusing cell",
              explanation="solved values are written into the caller's table before fill_cij refuses", key="guards.before_writeback")
    ctx.extra["guard_cells"] = n


def r_file(ctx, model):
    w = model.where(FILL)
    base = Scenario(system="cubic", columns=COLS)
    r0 = run_fill(model, base, ctx)
    if r0[0] != "ok":
        raise AnalysisError(f"fill_cij refuses a sufficient cubic table in the base scenario: {r0[1]}")
    # a directory named like the system in the working directory
    sc = Scenario(system="cubic", columns=COLS, fs={"cubic": "dir"})
    r = run_fill(model, sc, ctx)
    ctx.check(r[0] == "ok" and sc.opened == base.opened and dict(r[1].cols) == dict(r0[1].cols), "directory named 'cubic' does not change the outcome", w,
              expected=f"opens {base.opened}", found=f"{r[0]} {r[1] if r[0] == 'raise' else ''} opened {sc.opened}",
              explanation="a directory named like the crystal system in the working directory changes which relations are used "
                          "(or makes fill_cij fail)", key="file.directory")
    # a user-written relations file passed instead of a system name
    text = (REPO / "cij" / "data" / "constraints" / "cubic").read_text()
    for name in ("my_relations.txt", "sub/dir/rel", "/abs/rel"):
        sc = Scenario(system=name, columns=COLS, fs={name: "file"}, user_files={name: text})
        r = run_fill(model, sc, ctx)
        ctx.check(r[0] == "ok" and sc.opened == [("user", name)] and dict(r[1].cols) == dict(r0[1].cols),
                  f"user relations file {name!r} is used as the relations", w, expected=f"opens {name!r} and fills as for 'cubic'",
                  found=f"{r[0]} {r[1] if r[0] == 'raise' else ''} opened {sc.opened}",
                  explanation="a path to a relations file given in place of a system name is not the file that is read",
                  key="file.user")
    # every path binds the file variable (no UnboundLocalError in any file-system state)
    for fs in ({}, {"cubic": "dir"}, {"cubic": "file"}):
        sc = Scenario(system="cubic", columns=COLS, fs=fs, user_files={"cubic": text})
        r = run_fill(model, sc, ctx)
        ctx.check(r[0] == "ok" or r[1] not in ("UnboundLocalError", "NameError"), f"relations file bound with fs={fs}", w, expected="a file is opened",
                  found=f"{r[0]} {r[1] if r[0] == 'raise' else ''}", explanation="the relations-file variable is unbound on this path", key="file.bound")


def r_case(ctx, model):
    w = model.where(FILL)
    lower = run_fill(model, Scenario(system="cubic", columns=["V", "c11", "c12", "c44"]), ctx)
    sc = Scenario(system="cubic", columns=["V", "C11", "c12", "C44"])
    up = run_fill(model, sc, ctx)
    if lower[0] != "ok":
        raise AnalysisError("base scenario refuses")
    ok = up[0] == "ok"
    found = str(up[1]) if not ok else ""
    if ok:
        A, B = sc.lstsq
        nsel = sum(1 for r in range(A.shape[0]) if B.rows[r] != 0)
        names = list(up[1].cols)
        dup = [c for c in names if c.lower() in [d.lower() for d in names if d != c]]
        same = {c.lower(): v for c, v in up[1].cols.items()} == {c.lower(): (v if not str(v).startswith("COL_") else sp.Symbol(str(v).replace("COL_C", "COL_c"), real=True)) for c, v in lower[1].cols.items()}
        ok = nsel == 3 and not dup and "C11" in names and "C44" in names
        found = f"{nsel} supplied rows, duplicates {dup}, columns {names[:6]}"
    ctx.check(ok, "upper-case column names are matched case-insensitively (collect and write-back)", w,
              expected="3 supplied rows; C11/C44 overwritten in place, no duplicate c11/c44", found=found,
              explanation="letter case of a column name changes which components count as supplied, or creates duplicate columns",
              key="case")


def r_writeback_kind(ctx, model):
    """T-LIB: .loc[:, k] = v keeps the existing column's dtype; the write-back must replace columns"""
    f = model.func(FILL)
    ctx.fn(FILL)
    elast = f.args.args[0].arg
    n = 0
    for st in ast.walk(f):
        if isinstance(st, ast.Assign) and isinstance(st.targets[0], ast.Subscript):
            t = st.targets[0]
            base = t.value
            if isinstance(base, ast.Attribute) and base.attr in ("loc", "iloc", "at", "iat") and isinstance(base.value, ast.Name) \
                    and base.value.id == elast:
                n += 1
                ctx.check(False, "write-back by column replacement", model.where(FILL, st), expected=f"{elast}[key] = col",
                          found=src(st), explanation="writing through .loc/.iloc into an existing column keeps the column's dtype: "
                                                     "an integer-typed supplied column raises (pandas 3) or truncates the solved values",
                          key="writeback.loc")
            elif isinstance(base, ast.Name) and base.id == elast:
                n += 1
                ctx.ok("write-back by column replacement", model.where(FILL, st), src(st))
    ctx.floor("stores into the table", n, 1)


def r_dtype_provenance(ctx, model):
    """no working array takes its element type from a supplied column: `*_like(<column data>)`, `numpy.empty(..., dtype=<column>.dtype)`,
    `<column data>.copy()` filled with other columns.  An integer-typed first column would then truncate every later value."""
    f = model.func(FILL)
    w = model.where(FILL, f)
    params = [a.arg for a in f.args.args]
    table = params[0]
    tainted = {table}
    # names that carry column data (and therefore a column's dtype): propagated to a fixed point through assignments, loops and appends
    def expr_tainted(e):
        for n in ast.walk(e):
            if isinstance(n, ast.Name) and n.id in tainted:
                return True
        return False
    FRESH_FLOAT = {"zeros", "ones", "eye", "identity", "full", "empty", "arange", "linspace", "float64", "float"}
    changed = True
    while changed:
        changed = False
        for st in ast.walk(f):
            tgts, val = [], None
            if isinstance(st, ast.Assign):
                tgts, val = st.targets, st.value
            elif isinstance(st, (ast.For, ast.comprehension)):
                tgts, val = [st.target], st.iter
            elif isinstance(st, ast.Expr) and isinstance(st.value, ast.Call) and isinstance(st.value.func, ast.Attribute) and st.value.func.attr in ("append", "extend", "insert"):
                if isinstance(st.value.func.value, ast.Name) and any(expr_tainted(a_) for a_ in st.value.args) and st.value.func.value.id not in tainted:
                    tainted.add(st.value.func.value.id)
                    changed = True
                continue
            if val is None or not expr_tainted(val):
                continue
            if isinstance(val, ast.Call) and (dotted_name(val.func) or "").split(".")[-1] in FRESH_FLOAT | {"len", "lower", "index", "search", "match", "str", "list", "keys", "tolist"}:
                continue            # counts, names, freshly typed arrays: no data dtype carried
            if isinstance(val, ast.Call) and any(k_.arg == "dtype" and "float" in src(k_.value) for k_ in val.keywords):
                continue
            for t in tgts:
                for nm in ast.walk(t):
                    if isinstance(nm, ast.Name) and isinstance(nm.ctx, ast.Store) and nm.id not in tainted:
                        # loop variables over column NAMES (elast.columns, keys) carry names, not data
                        if isinstance(st, (ast.For, ast.comprehension)) and isinstance(val, ast.Attribute) and val.attr in ("columns", "index"):
                            continue
                        tainted.add(nm.id)
                        changed = True
    # names bound to the element type of column data (`t = b.dtype`, `t = b.dtype.type`, numpy.result_type(<column data>))
    dtype_names = set()
    for st in ast.walk(f):
        if isinstance(st, ast.Assign) and len(st.targets) == 1 and isinstance(st.targets[0], ast.Name):
            v = st.value
            while isinstance(v, ast.Attribute) and v.attr in ("type", "name", "str", "char"):
                v = v.value
            if isinstance(v, ast.Attribute) and v.attr == "dtype" and expr_tainted(v.value):
                dtype_names.add(st.targets[0].id)
            if isinstance(v, ast.Call) and (dotted_name(v.func) or "").split(".")[-1] in ("result_type", "common_type", "find_common_type", "promote_types") \
                    and any(expr_tainted(a_) for a_ in v.args):
                dtype_names.add(st.targets[0].id)

    def column_dtype(e):
        while isinstance(e, ast.Attribute) and e.attr in ("type", "name", "str", "char"):
            e = e.value
        return (isinstance(e, ast.Attribute) and e.attr == "dtype" and expr_tainted(e.value)) or (isinstance(e, ast.Name) and e.id in dtype_names)

    bad = []
    for c in ast.walk(f):
        if not isinstance(c, ast.Call):
            continue
        name = (dotted_name(c.func) or "")
        last = name.split(".")[-1]
        if any(k_.arg == "dtype" and column_dtype(k_.value) for k_ in c.keywords) or (last in ("astype", "asarray", "array", "view") and any(column_dtype(a_) for a_ in c.args[:2])):
            bad.append(f"{src(c)[:80]} (line {c.lineno})")
            continue
        explicit_float = any(k_.arg == "dtype" and "float" in src(k_.value) for k_ in c.keywords)
        if last in ("empty_like", "zeros_like", "ones_like", "full_like") and c.args and expr_tainted(c.args[0]) and not explicit_float:
            bad.append(f"{src(c)[:80]} (line {c.lineno})")
        for k_ in c.keywords:
            if k_.arg == "dtype" and isinstance(k_.value, ast.Attribute) and k_.value.attr == "dtype" and expr_tainted(k_.value.value):
                bad.append(f"{src(c)[:80]} (line {c.lineno})")
        if last == "astype" and c.args and isinstance(c.args[0], ast.Attribute) and c.args[0].attr == "dtype" and expr_tainted(c.args[0].value):
            bad.append(f"{src(c)[:80]} (line {c.lineno})")
    ctx.check(not bad, "no working array inherits its element type from a supplied column", w,
              expected="arrays that collect several columns are created with a floating type (numpy.array of the list of columns, zeros/empty with float dtype)",
              found="; ".join(bad) or f"none ({len(tainted)} names carry column data)",
              explanation="a working array is allocated with the dtype of one supplied column (e.g. numpy.empty_like(first column, shape=...)): when that column "
                          "is integer-typed the values of the other columns are truncated on assignment - the outcome depends on integer-versus-float column "
                          "type and on column order", key="dtype.provenance")


def r_only_moduli(ctx, model):
    w = model.where(FILL)
    cols = ["V", "flag", "P", "c11", "c12", "c44"]
    sc = Scenario(system="cubic", columns=cols, zero={"COL_flag", "COL_P"})
    r = run_fill(model, sc, ctx)
    if r[0] != "ok":
        raise AnalysisError(f"fill_cij refuses: {r[1]}")
    out = r[1]
    bad = [c for c in ("V", "flag", "P") if out.cols.get(c) != sp.Symbol(f"COL_{c}", real=True)]
    from ..fillmodel import DROP_ATOL
    tests = list(sc.drop_tests)
    ctx.check(bool(tests) and all(t == DROP_ATOL for t in tests), "vanishing components are judged against the caller's drop tolerance", w,
              expected="numpy.allclose(column, 0, atol=drop_atol)", found=f"atol = {sorted({str(t) for t in tests})}",
              explanation="the test that omits a component uses another tolerance than the drop_atol argument (or none), so components "
                          "below the requested drop tolerance are kept or larger ones are dropped", key="drop_atol")
    ctx.check(not sc.bad_vanish_tests, "a component is omitted iff |value| <= drop_atol at EVERY volume", w,
              expected="allclose(col, 0, atol) / (abs(col) <= atol).all() / abs(col).max() <= atol", found="; ".join(sorted(set(sc.bad_vanish_tests))[:3]) or "canonical",
              explanation="the test that omits a component is not 'magnitude below the drop tolerance at all volumes' (e.g. the magnitude of the largest signed "
                          "value): a component that is non-positive everywhere, or touches zero at one volume, is dropped although it does not vanish", key="drop_test.form")
    ctx.check(not bad, "non-modulus columns pass through untouched, even when all-zero", w, expected="V, flag, P kept",
              found=f"missing or changed: {bad}", explanation="a non-modulus column is dropped or overwritten by fill_cij", key="only_moduli")
    # a name that merely contains digits is not a modulus column either way is out of the property's scope


def r_cli(ctx, model):
    f = model.func(FILL)
    params = [a.arg for a in f.args.args]
    defaults = dict(zip(reversed(params), [src(d) for d in reversed(f.args.defaults)]))
    cli = model.func("cij.cli.fill:main")
    ctx.fn("cij.cli.fill:main")
    opts = {}
    for d in cli.decorator_list:
        if isinstance(d, ast.Call) and (dotted_name(d.func) or "").endswith("option"):
            names = [a.value for a in d.args if isinstance(a, ast.Constant) and isinstance(a.value, str)]
            long = [n for n in names if n.startswith("--")]
            kw = {k.arg: k.value for k in d.keywords}
            if long:
                opts[long[0][2:].replace("-", "_")] = kw
    w = model.where("cij.cli.fill:main", cli)
    missing = [o for o in opts if o not in params]
    ctx.check(not missing and {"system", "ignore_residuals", "ignore_rank", "drop_atol"} <= set(opts), "cij fill options are fill_cij parameters", w,
              expected="--system --ignore-residuals --ignore-rank --drop-atol", found=f"options {sorted(opts)}; not parameters: {missing}",
              explanation="a command-line option of `cij fill` does not correspond to a parameter of fill_cij", key="cli.options")
    flags_ok = all(isinstance(opts.get(o, {}).get("is_flag"), ast.Constant) and opts[o]["is_flag"].value is True and "default" not in opts[o]
                   for o in ("ignore_residuals", "ignore_rank"))
    d = opts.get("drop_atol", {}).get("default")
    d_ok = d is not None and sp.nsimplify(src(d), rational=True) == sp.nsimplify(defaults.get("drop_atol", "nan"), rational=True)
    ctx.check(flags_ok and d_ok and defaults.get("ignore_rank") == "False" and defaults.get("ignore_residuals") == "False",
              "option defaults agree with fill_cij (flags off, drop_atol)", w, expected=f"flags False, drop_atol {defaults.get('drop_atol')}",
              found=f"drop_atol default {src(d) if d is not None else None}; flags_ok {flags_ok}",
              explanation="the command's defaults differ from the function's", key="cli.defaults")
    # what the command hands to fill_cij, bound to fill_cij's signature (positional, keyword or **kwargs forwarding alike)
    from .C17 import fold_fillcmd
    _, _, cap, optm, fparams = fold_fillcmd(ctx, model)
    bound = cap.get("fill", {})
    wrong = [f"{p_} <- {bound.get(p_)!r}" for p_ in fparams[1:] if p_ in optm and bound.get(p_) != optm[p_]]
    wrong += [f"{p_} <- {v!r}" for p_, v in bound.items() if p_ not in optm and p_ != fparams[0]]
    ctx.check("raised" not in cap and bound and not wrong, "cij fill forwards every option to the like-named parameter of fill_cij", w,
              expected="system, ignore_residuals, ignore_rank, drop_atol (and any further option) reach the parameter they are named after",
              found=f"raises {cap['raised']}" if "raised" in cap else (f"mismatched: {wrong}" if wrong else f"{sorted(bound)}"),
              explanation="an option given on the command line does not reach fill_cij, or reaches another parameter (e.g. the two ignore "
                          "flags or the two tolerances crossed by a positional call)", key="cli.forward")
    schema = json.loads((REPO / "cij" / "data" / "schema" / "config.schema.json").read_text())
    keys = set(schema["definitions"]["elast_settings"]["properties"]["symmetry"]["properties"])
    ctx.check(keys <= set(params[1:]) and {"system", "ignore_rank", "ignore_residuals"} <= keys, "schema symmetry keys are fill_cij keyword parameters",
              Where("cij/data/schema/config.schema.json", "symmetry", 0), expected=str(sorted(params[1:])), found=str(sorted(keys)),
              explanation="a schema-valid symmetry setting is not a parameter of fill_cij (TypeError at run time)", key="schema.keys")


RULES = [
    ("R09.1-2", "refusal decision table over lstsq outcomes and flags; table untouched on refusal", r_guards),
    ("R09.3", "relations file: bound on every path, directory shadowing, user file", r_file),
    ("R09.4", "case-insensitive column matching without duplicates", r_case),
    ("R09.5", "write-back replaces columns (dtype-independent)", r_writeback_kind),
    ("R09.5b", "no working array takes its element type from a supplied column", r_dtype_provenance),
    ("R09.6", "only modulus columns are overwritten or dropped", r_only_moduli),
    ("R09.7", "CLI options, defaults and schema keys agree with fill_cij's parameters", r_cli),
]
