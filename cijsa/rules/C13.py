"""C13 — results do not depend on how the same physical data are presented."""
from __future__ import annotations

import ast

import sympy as sp

from ..cfg import raises_with_guards, DefiniteAssignment
from ..facts import physics_seeds, LONG, OFFD, QHACALC, MODE_DEP, c_intrinsic, KeyObj
from ..libsum import lib_class
from ..model import dotted_name, src, body_wo_doc
from ..report import AnalysisError
from ..sym import Ev, Obj, LibV, AVG, as_sym, is_sym, is_indexed, Indexed
from . import C01, C05, C11
from .C12 import Proxy, Reuse

LEVEL = "other"
TECHNIQUE = "static analysis: symmetric-reduction / no-positional-access check on folded formulas, override-vs-base validation cross-check (installed qha source), key canonicalisation folding, loop-carried dependence"
EXPLANATION = (
    "Static analysis decides the structural reasons for presentation independence: the q-average uses normalised "
    "weights; in the folded formulas of both non-shear classes every mode-dependent atom occurs only inside the symmetric "
    "mode average and no array is indexed positionally (the only positional access on the q/mode axes is the Gamma mask); "
    "weights and frequencies are both taken in file order; the read_input override keeps every refusal of the qha method "
    "it replaces (decreasing-volume check), so another block order is rejected; static-table keys are canonicalised for any "
    "prefix/letter case; the static fits share one reference volume between fit and evaluation; the value written by the "
    "mode interpolation at (q, m) depends on inputs at (q, m) only (no loop-carried state).")
NOT_DECIDED = "equality to rounding; permutations of modes at the Gamma point (the mask is positional there by design)."
ASSUMPTIONS = ["least-squares polynomial fits in an affine function of the abscissa are invariant under row order and under the "
               "choice of a shared reference volume (mathematics, trusted)",
               "T-LIB: qha Calculator.read_input raises unless is_monotonic_decreasing(volumes) (installed source)"]


def r_weights(ctx, model):
    px = Reuse(ctx, None, minimum=4)      # every instance of the mode-average rule bears on presentation independence
    C01.r_average(px, model)
    px.done("C01.r_average")


def r_symmetric(ctx, model):
    seeds, intr, calc = physics_seeds(model)
    ev = Ev(model, seeds, intr, ctx=ctx)
    for kind, cref in (("long", LONG), ("offd", OFFD)):
        for attr in ("value_isothermal", "value_adiabatic"):
            owner, f, _ = model.find_member(cref, attr)
            if f is None:
                raise AnalysisError(f"anchor vanished: {cref}.{attr}")
            e = sp.sympify(as_sym(ev.get_attr(Obj(cref), attr)))
            idx = [a for a in e.atoms(sp.Function) if is_indexed(a)]
            outside = e
            for a in e.atoms(AVG):
                outside = outside.xreplace({a: sp.Symbol("AVGATOM")})
            leaked = sorted(str(s) for s in outside.free_symbols if s in MODE_DEP)
            ctx.check(not idx and not leaked, f"{kind}.{attr}: mode-dependent data only inside the symmetric average, no positional indexing",
                      model.where(f"{owner}.{attr}", f), expected="FREQ, GAMMA, VDR only inside AVG[...]; no array[index]",
                      found=f"positional: {[str(i) for i in idx][:3]}; outside the average: {leaked}",
                      explanation=f"{attr} of the {kind} class reads a q-point or mode by position, or uses mode data outside the "
                                  f"weighted mean: reordering q-points or modes would change the result", key=f"{kind}.{attr}.symmetric")


def validations(fd):
    """guards of raise statements: [(callee last name, negated?, first-arg source)]"""
    out = []
    for rz, conds in raises_with_guards(fd):
        for test, pol in conds:
            t, neg = test, not pol
            if isinstance(t, ast.UnaryOp) and isinstance(t.op, ast.Not):
                t, neg = t.operand, not neg
            if isinstance(t, ast.Call):
                name = (dotted_name(t.func) or "").split(".")[-1]
                out.append((name, neg, src(t.args[0]) if t.args else ""))
    return out


def r_override(ctx, model):
    base = lib_class("qha/calculator.py", "Calculator")
    bm = {n.name: n for n in base.body if isinstance(n, ast.FunctionDef)}
    cls = model.cls(QHACALC)
    om = {n.name: n for n in cls.body if isinstance(n, ast.FunctionDef)}
    n = 0
    for name, f in om.items():
        if name not in bm or name.startswith("__"):
            continue
        n += 1
        ctx.fn(f"{QHACALC}.{name}")
        bv = {(v[0], v[1]) for v in validations(bm[name])}
        ov = validations(f)
        # refusals placed in a helper of the class (self._require_x(arg) / cls.x(arg) / a module-level function): the guard's
        # first argument is mapped back to what the call site passes
        mod_ = model.mods[QHACALC.split(":")[0]]
        sn_ = f.args.args[0].arg if f.args.args else "self"
        for c in ast.walk(f):
            if not isinstance(c, ast.Call):
                continue
            helper = None
            if isinstance(c.func, ast.Attribute) and isinstance(c.func.value, ast.Name) and c.func.value.id in (sn_, "cls", cls.name) and c.func.attr in om and c.func.attr != name:
                helper = om[c.func.attr]
                skip = 0 if any((dotted_name(d) or "") == "staticmethod" for d in helper.decorator_list) else 1
            elif isinstance(c.func, ast.Name) and c.func.id in mod_.funcs:
                helper, skip = mod_.funcs[c.func.id], 0
            if helper is None:
                continue
            params = [a.arg for a in helper.args.args][skip:]
            bind = {p_: src(a_) for p_, a_ in zip(params, c.args)}
            bind.update({kw.arg: src(kw.value) for kw in c.keywords if kw.arg})
            for nm_, neg_, arg_ in validations(helper):
                ov.append((nm_, neg_, bind.get(arg_, arg_)))
        ovs = {(v[0], v[1]) for v in ov}
        missing = sorted(bv - ovs)
        ctx.libfact(f"installed qha Calculator.{name} refuses under {sorted(bv)}")
        ctx.check(not missing, f"override {name} keeps the refusals of qha's {name}", model.where(f"{QHACALC}.{name}", f),
                  expected=f"raise guarded by {sorted(bv)}", found=f"override guards {sorted(ovs)}",
                  explanation=f"QHACalculator.{name} replaces qha's method but drops its check {missing}: input the library would "
                              f"reject (e.g. volume blocks not in decreasing order) is processed and gives different numbers",
                  key=f"override.{name}")
        # sibling agreement on state: every attribute the library's method stores must be stored by the replacement too (the rest
        # of the library reads them: q-point weights, frequencies, volumes ...)
        def stores(fd):
            sn0 = fd.args.args[0].arg if fd.args.args else "self"
            out_ = set()
            for st in ast.walk(fd):
                tg = st.targets if isinstance(st, ast.Assign) else ([st.target] if isinstance(st, (ast.AnnAssign, ast.AugAssign)) else [])
                for t in tg:
                    for x in ast.walk(t):
                        if isinstance(x, ast.Attribute) and isinstance(x.value, ast.Name) and x.value.id == sn0 and isinstance(x.ctx, ast.Store):
                            out_.add(x.attr)
            return out_
        ostores = stores(f)
        for c in ast.walk(f):
            if isinstance(c, ast.Call) and isinstance(c.func, ast.Attribute) and isinstance(c.func.value, ast.Name) and c.func.value.id == sn_ and c.func.attr in om and c.func.attr != name:
                ostores |= stores(om[c.func.attr])
        lost = sorted(stores(bm[name]) - ostores)
        ctx.check(not lost, f"override {name} stores every attribute qha's {name} stores", model.where(f"{QHACALC}.{name}", f),
                  expected=f"assigns {sorted(stores(bm[name]))}", found=f"not assigned: {lost}",
                  explanation=f"QHACalculator.{name} replaces qha's method but no longer sets {lost}: the library reads these attributes later (e.g. the q-point "
                              f"weights of the free-energy sum), so the calculation aborts or uses stale data", key=f"override.{name}.stores")
        if name == "read_input":
            # the decreasing-order check must look at the volumes this method stores
            sn = f.args.args[0].arg
            vol_names = {f"{sn}._volumes", f"{sn}.volumes"}
            for st in ast.walk(f):
                if isinstance(st, ast.Assign) and src(st.targets[0]) == f"{sn}._volumes" and isinstance(st.value, ast.Name):
                    vol_names.add(st.value.id)
            args = [v[2] for v in ov if v[0] == "is_monotonic_decreasing"]
            ctx.check(bool(args) and all(a in vol_names for a in args), "the order check is applied to the stored volumes", model.where(f"{QHACALC}.{name}", f),
                      expected=f"is_monotonic_decreasing({sn}._volumes)", found=str(args),
                      explanation="the decreasing-order check does not look at the volumes handed to the QHA layer", key="override.read_input.arg")
    ctx.floor("overridden qha methods", n, 2)


def first_sym(v):
    """the per-element expression of an elementwise comprehension (nested lists collapse to their innermost element)"""
    from ..sym import Tup
    while isinstance(v, Tup) and v.items:
        v = v.items[0]
    return as_sym(v)


def r_order(ctx, model):
    """read_input folded under three orders of the volume blocks: decreasing is taken as is; increasing and shuffled are refused
    (the mode interpolation and the static fits read the file order, so a silent re-ordering of QHA's copy is not equivalent)"""
    from ..dfmodel import SeqV, DF_LIB
    from ..sym import RaisedV, is_indexed
    VOLS, ENER, FR = sp.Symbol("VOLS", positive=True), sp.Symbol("ENER", real=True), sp.Symbol("FREQS", real=True)
    ref = f"{QHACALC}.read_input"
    f = model.func(ref)
    w = model.where(ref, f)
    for scenario in ("decreasing", "increasing", "shuffled"):
        qp = Obj("cij.io.traditional.qha_input:QPointData", {"coord": sp.Symbol("QC"), "modes": FR, "__fields__": ["coord", "modes"]})
        vol = Obj("cij.io.traditional.qha_input:VolumeData", {"volume": VOLS, "energy": ENER, "q_points": SeqV(qp), "pressure": sp.Symbol("PIN")})
        wt = Obj("cij.io.traditional.qha_input:QPointWeight", {"coord": sp.Symbol("QC"), "weight": sp.Symbol("WQ"), "__fields__": ["coord", "weight"]})
        inp = Obj("cij.io.traditional.qha_input:QHAInputData", {"nm": sp.Integer(2), "volumes": SeqV(vol), "weights": SeqV(wt)})

        def mono(ev, a, k):
            x = as_sym(a[0])
            reversed_ = any(is_indexed(t) and "::-1" in str(t.args[1]) for t in sp.preorder_traversal(x))
            flipped = any(getattr(t, "func", None) and str(t.func) in ("FLIP",) for t in sp.preorder_traversal(x))
            rev = reversed_ or flipped
            if VOLS not in x.free_symbols:
                raise AnalysisError("is_monotonic_decreasing applied to something that is not the volume list")
            if scenario == "shuffled":
                return False
            return (scenario == "decreasing") != rev

        intr = {"qha.tools.is_monotonic_decreasing": mono, "numpy.flip": lambda ev, a, k: sp.Function("FLIP")(as_sym(a[0])),
                "numpy.array": lambda ev, a, k: first_sym(a[0])}
        ev = Ev(model, {}, intr, ctx=ctx)
        obj = Obj(QHACALC)
        try:
            ev.call_def(f, model.mods["cij.core.qha_adapter"], ref, [obj, inp], {})
            outcome = "accepted"
        except RaisedV as e:
            outcome = f"raises {e.exc_name}"
        if scenario == "decreasing":
            v = obj.attrs.get("_volumes")
            ok = outcome == "accepted" and is_sym(v) and sp.simplify(v - VOLS) == 0
            ctx.check(ok, "decreasing volume blocks are handed to QHA in file order", w, expected="_volumes = the file's volumes", found=f"{outcome}; _volumes = {v}",
                      explanation="well-ordered input is refused or re-ordered", key="order.decreasing")
        else:
            ctx.check(outcome.startswith("raises"), f"{scenario} volume blocks are refused", w, expected="an error", found=outcome,
                      explanation=f"a phonon file whose volume blocks are listed in {scenario} order is accepted: QHA's copy and the mode interpolation / "
                                  f"static fits (which read the file order) then disagree, so the results differ from those of the decreasing listing",
                      key=f"order.{scenario}")


def r_keys(ctx, model):
    ref = "cij.io.traditional.elast_dat:_find_modulus_key"
    f = model.func(ref)
    ev = Ev(model, {("global", "cij.util:c_"): LibV("cij.c_")}, {"cij.c_": c_intrinsic}, ctx=ctx)
    cases = {"c11": "c11", "C11": "c11", "c12": "c12", "C21": "c12", "Cij44": "c44", "c_66": "c66", "s1122": "c12", "c2311": "c14",
             "C1212": "c66", "45": "c45", "c54": "c45"}
    bad = []
    for name, want in cases.items():
        got = ev.call_def(f, model.mods["cij.io.traditional.elast_dat"], ref, [name], {})
        if not isinstance(got, KeyObj) or got.name != want:
            bad.append(f"{name} -> {got} (want {want})")
    for name in ("V", "vol", "T"):
        got = ev.call_def(f, model.mods["cij.io.traditional.elast_dat"], ref, [name], {})
        if got != name:
            bad.append(f"{name} -> {got} (want unchanged)")
    ctx.check(not bad, f"static-table column names are canonicalised whatever the prefix or letter case ({len(cases)} spellings)", model.where(ref, f),
              expected="trailing digits -> c_(digits); other names unchanged", found="; ".join(bad[:5]) or "as required",
              explanation="upper-case or differently prefixed column names of the static table are not mapped to the canonical key", key="keys.canonical")


def r_fits(ctx, model):
    px = Reuse(ctx, lambda lab: lab.startswith(("static part", "static pressure", "static")), minimum=2)
    C05.r_sum(px, model)
    C05.r_pstatic(px, model)
    px.done("C05.r_sum / C05.r_pstatic")


def r_independent(ctx, model):
    ref = "cij.core.mode_gamma:interpolate_modes"
    f = model.func(ref)
    ctx.fn(ref)
    # the (q, mode) loop: the innermost for-loop (nested pair, or one loop over itertools.product) whose body stores into
    # subscripted arrays
    fors = [n for n in ast.walk(f) if isinstance(n, ast.For)]
    inner = [n for n in fors if not any(isinstance(c, ast.For) for c in ast.walk(n) if c is not n)]
    storing = [n for n in inner if any(isinstance(t, ast.Subscript) and isinstance(t.ctx, ast.Store) for st in ast.walk(n) for t in ast.walk(st) if isinstance(st, ast.Assign))]
    if len(storing) != 1:
        raise AnalysisError(f"interpolate_modes: expected one (q, mode) loop that fills the output arrays, found {len(storing)}")
    li = storing[0]
    assigned = set()
    for st in ast.walk(li):
        if isinstance(st, (ast.Assign, ast.AugAssign)):
            for t in (st.targets if isinstance(st, ast.Assign) else [st.target]):
                for nm in ast.walk(t):
                    if isinstance(nm, ast.Name) and isinstance(nm.ctx, ast.Store):
                        assigned.add(nm.id)
    # treat the loop body as a function whose parameters are the names it does not assign
    fn = ast.FunctionDef(name="body", args=ast.arguments(posonlyargs=[], args=[], kwonlyargs=[], kw_defaults=[], defaults=[]),
                         body=li.body, decorator_list=[], lineno=li.lineno, col_offset=0)
    da = DefiniteAssignment(fn)
    carried = sorted({name for name, node, path in da.problems if name in assigned})
    aug = [src(st) for st in ast.walk(li) if isinstance(st, ast.AugAssign)]
    # state carried between iterations: an object that the body both modifies and reads.  Pure writes do not read: the base
    # name of a subscripted store (`out[:, j, k] = ...`) and the receiver of an append/extend/add/insert statement whose value
    # is discarded.  Everything else that loads the name (a subscripted load, passing it on, membership tests, .get, .pop,
    # .setdefault, .update with its own content) is a read.
    mutated, read, pure = set(), set(), set()
    cross = []
    for nn in ast.walk(li):
        if isinstance(nn, ast.Subscript) and isinstance(nn.value, ast.Name) and isinstance(nn.ctx, (ast.Store, ast.Del)):
            mutated.add(nn.value.id)
            pure.add(id(nn.value))
        if isinstance(nn, ast.Expr) and isinstance(nn.value, ast.Call) and isinstance(nn.value.func, ast.Attribute) \
                and isinstance(nn.value.func.value, ast.Name) and nn.value.func.attr in ("append", "extend", "add", "insert"):
            mutated.add(nn.value.func.value.id)
            pure.add(id(nn.value.func.value))
        if isinstance(nn, ast.Call) and isinstance(nn.func, ast.Attribute) and isinstance(nn.func.value, ast.Name) \
                and nn.func.attr in ("append", "add", "update", "setdefault", "pop", "extend", "insert", "clear", "remove", "popitem", "sort", "fill", "put", "itemset"):
            mutated.add(nn.func.value.id)
    for nn in ast.walk(li):
        if isinstance(nn, ast.Name) and isinstance(nn.ctx, ast.Load) and id(nn) not in pure:
            read.add(nn.id)
            if nn.id in mutated and nn.id not in assigned:
                cross.append(nn.id)
    stateful = sorted((mutated & read) - assigned)
    carried = sorted(set(carried) | set(stateful))
    ctx.check(not carried and not aug, "no loop-carried state in the (q, mode) loop", model.where(ref, li), expected="every name assigned in the loop body is assigned before it is read",
              found=f"carried: {carried}; augmented assignments: {aug[:2]}",
              explanation="a value computed for one (q, mode) pair leaks into the next iteration: the result at (q, m) depends on the order "
                          "of q-points or modes", key="loop.carried")

    px = Reuse(ctx, lambda lab: "every non-acoustic" in lab or lab.startswith("loop."), minimum=1)
    C11.r_loop(px, model)
    px.done("C11.r_loop")


RULES = [
    ("R13.1", "q-average with normalised weights in file order; unweighted mode mean", r_weights),
    ("R13.2", "mode-dependent atoms only inside the symmetric average; no positional indexing in the folded formulas", r_symmetric),
    ("R13.3", "overrides keep the refusals of the qha methods they replace (installed source)", r_override),
    ("R13.3b", "read_input folded under decreasing / increasing / shuffled block order: taken as is / refused / refused", r_order),
    ("R13.4", "static-table keys canonicalised for any prefix / letter case", r_keys),
    ("R13.5", "static fits share one reference volume between fit and evaluation", r_fits),
    ("R13.6", "per-(q, mode) independence of the mode interpolation", r_independent),
]
