"""C01 — thermal c11..c33, c12, c13, c23 are strain derivatives of the QHA free energy."""
from __future__ import annotations

import ast

import sympy as sp

from .. import units as U
from ..anf import bose, compare, short, is_zero
from ..facts import (physics_seeds, interpolate_modes_roles, LONG, OFFD, CALC, FREQ, GAMMA, VDR, T, V, E0, E1, NAT,
                     E, PTV, PSTAT, QPHYS, MODE_DEP)
from ..model import dotted_name, src, body_wo_doc, is_logging_stmt
from ..report import AnalysisError, Where
from ..sym import Ev, Obj, Tup, Masked, AVG, as_sym, CondV, RaisedV

NS = "cij.core.phonon_contribution.nonshear"
AU = U.Ry / U.bohr ** 3

LEVEL = "other"
EXPLANATION = (
    "Static analysis decides the structural clauses of C01: the zero-point and thermal bodies of both non-shear "
    "classes (resolved through the MRO, properties inlined) are normalised to exact rational functions over the "
    "atoms FREQ, GAMMA, VDR, E=exp(hc*nu/kT), T, V, E0, E1, NAT, with the mode average as a linear functional and "
    "unit names as symbols (quantity calculus), and compared with a reference that is derived mechanically by "
    "differentiating the per-mode free energy of the property statement. Also decided: pressure term of the "
    "off-diagonal class, Bose factors, reduction axes and Gamma mask of the mode average, T=0 masking, "
    "producer/consumer order of mode_gamma. The same bodies are also folded cell by cell on a 2 x 4 (q, m) grid with symbolic q-point "
    "weights through the real reduction code (R01.13): the weight of every single cell, whatever code performs the reduction.")
NOT_DECIDED = ("agreement with finite differences of F on concrete spectra; numpy's floating-point arithmetic; "
               "accuracy of the interpolated gamma.")
ASSUMPTIONS = ["arrays handed in from outside (frequencies, mode gammas) are not assumed C-contiguous: a store through reshape() of an array that takes its layout from them is a finding",
               "block loops over a grid axis are folded once; coverage of the axis is refuted by an exact integer witness or accepted when the trip count is ceil(L/b) structurally / on the box [1,240] x ([1,48] + {64,100,1000}) (cijsa/blocks.py)",
               "T-LIB: the temperature grid T_MIN + DT * arange(NT) (qha.tools.arange) is integer-typed when T_MIN and DT are whole numbers: operations that keep an integer element type (numpy.reciprocal without dtype, negative integer powers) are findings",
               
    "T-LIB: numpy.average(weights=w) divides by sum(w); numpy broadcasting as documented",
    "T-LIB: qha Calculator attributes finer_volumes_bohr3 [bohr^3], temperature_array [K], p_tv_au [Ry/bohr^3]",
    "input units: frequencies cm^-1, volumes bohr^3 (documented input format)",
    "pint conversion factors and CODATA values from scipy.constants are trusted",
]


# ------------------------------------------------------------------ reference, derived from F
def reference():
    """per-mode free energy -> (P_zp, A_zp, P_th, A_th) per mode, as functions of the atoms."""
    Vs = sp.Symbol("Vs", positive=True)
    nu = sp.Function("nu")(Vs)
    gam = sp.Function("gam")(Vs)
    hw = U.HC * nu
    f_zp = hw / 2
    f_th = U.KB * T * sp.log(1 - sp.exp(-hw / (U.KB * T)))
    out = {}
    for tag, f in (("zp", f_zp), ("th", f_th)):
        d1 = sp.diff(f, Vs)
        d2 = sp.diff(f, Vs, 2)
        subs2 = {sp.Derivative(nu, (Vs, 2)): sp.diff(-gam * nu / Vs, Vs)}
        d2 = d2.subs(subs2).doit()
        rules = {sp.Derivative(nu, Vs): -gam * nu / Vs, sp.Derivative(gam, Vs): VDR / Vs}
        d1 = d1.subs(rules)
        d2 = d2.subs(rules).subs(rules)
        P = -d1
        A = Vs * d2 - P
        fin = {nu: FREQ, gam: GAMMA, Vs: V}
        out["P_" + tag] = sp.simplify(P.subs(fin))
        out["A_" + tag] = sp.simplify(A.subs(fin))
    return out


def expected(kind: str, part: str, ref):
    """reference value (physical / (Ry/bohr^3)) of the zero-point ('zp') or thermal ('th') part"""
    A, P = ref["A_" + part], ref["P_" + part]
    if kind == "long":
        per_mode = A / (5 * E0 * E1) + P / (3 * E0)
    else:
        per_mode = A / (15 * E0 * E1)
    return 3 * NAT * AVG(per_mode) / AU


def make_ev(ctx, model):
    seeds, intr, calc = physics_seeds(model)
    ev = Ev(model, seeds, intr, ctx=ctx)
    return ev


def norm(x):
    return bose(sp.sympify(as_sym(x)), QPHYS, E)


def r_formulas(ctx, model):
    ref = reference()
    ev = make_ev(ctx, model)
    for kind, cref in (("long", LONG), ("offd", OFFD)):
        obj = Obj(cref)
        for part, attr in (("zp", "zero_point_contribution"), ("th", "thermal_contribution")):
            owner, f, k = model.find_member(cref, attr)
            if f is None:
                raise AnalysisError(f"anchor vanished: {cref}.{attr}")
            w = model.where(f"{owner}.{attr}", f)
            try:
                got = norm(ev.get_attr(obj, attr))
            except RaisedV:
                raise
            except AnalysisError as e:
                # a formulation that does not reduce through average_over_modes cannot be read on the AVG basis; the cell-by-cell fold
                # R01.13 decides the same identity (same reference) through whatever code performs the reduction
                ctx.assume(f"R01.1-4 {kind}.{attr}: the AVG-basis normal form is not available for this formulation ({e.reason[:120]}); decided cell by cell by R01.13")
                continue
            want = bose(expected(kind, part, ref), QPHYS, E)
            if kind == "long":
                got, want = got.subs(E1, E0), want.subs(E1, E0)
            same, why = compare(got, want, MODE_DEP)
            ctx.check(same, f"{kind}.{attr}", w,
                      expected=f"3*NAT*AVG[A_{part}/({5 if kind == 'long' else 15}*e_i*e_j)"
                               + (f" + P_{part}/(3*e_i)" if kind == "long" else "") + "] / (Ry/bohr^3)",
                      found=short(got)[:500] if not same else "equal to the reference on the AVG basis",
                      explanation=f"{attr} of the {kind} class differs from the strain derivative of F: {why}",
                      key=f"{kind}.{attr}")
    ctx.call_sites += ev.call_sites


def r_cells(ctx, model):
    """zero-point and thermal bodies folded cell by cell on a 2 x 4 (q, m) grid with the real reduction code (cijsa/cellfold.py)"""
    from ..cellfold import CellFold
    ref = reference()
    cf = CellFold(ctx, model)
    for kind, cref in (("long", LONG), ("offd", OFFD)):
        for part, attr in (("zp", "zero_point_contribution"), ("th", "thermal_contribution")):
            owner, f, k = model.find_member(cref, attr)
            if f is None:
                raise AnalysisError(f"anchor vanished: {cref}.{attr}")
            w = model.where(f"{owner}.{attr}", f)
            got = cf.attr(cref, attr)
            want = expected(kind, part, ref).replace(AVG, lambda x: cf.avg(x))
            bad = cf.differs(got, want, same_strain=(kind == "long"))
            ctx.check(not bad, f"{kind}.{attr} cell by cell (2 q-points x 4 modes, symbolic weights)", w,
                      expected="3*NAT * sum_q w_q/sum(w) * 1/NP * sum_m [not Gamma acoustic] x_qm / (Ry/bohr^3)", found="differs in " + ", ".join(bad[:4]) if bad else "equal in every cell",
                      explanation=f"{attr} of the {kind} class, folded cell by cell, is not the weight-normalised, Gamma-masked sum of the per-mode strain "
                                  f"derivative of F: differs in {', '.join(bad[:4])}", key=f"{kind}.{attr}.cells")
    ctx.call_sites += cf.ev.call_sites


def r_total(ctx, model):
    ev = make_ev(ctx, model)
    for kind, cref in (("long", LONG), ("offd", OFFD)):
        obj = Obj(cref)
        owner, f, _ = model.find_member(cref, "value_isothermal")
        if f is None:
            raise AnalysisError(f"anchor vanished: {cref}.value_isothermal")
        w = model.where(f"{owner}.value_isothermal", f)
        tot = norm(ev.get_attr(obj, "value_isothermal"))
        parts = norm(ev.get_attr(obj, "zero_point_contribution")) + norm(ev.get_attr(obj, "thermal_contribution"))
        want = sp.Integer(0) if kind == "long" else (PTV - PSTAT) / AU
        same, why = compare(tot - parts, want, MODE_DEP)
        ctx.check(same, f"{kind}.value_isothermal", w,
                  expected="zero_point + thermal" + (" + (P_total(T,V) - P_static(V))" if kind == "offd" else ""),
                  found=short(tot - parts)[:300] if not same else "as required",
                  explanation=f"isothermal value of the {kind} class is not zero-point + thermal"
                              + (" + total pressure - static pressure" if kind == "offd" else "") + f": {why}",
                  key=f"{kind}.value_isothermal")


def r_bose(ctx, model):
    ev = make_ev(ctx, model)
    obj = Obj(LONG)
    q = sp.Symbol("Qx", positive=True)
    want = {"Q": QPHYS, "Q1": QPHYS / (E - 1), "Q2": QPHYS ** 2 * E / (E - 1) ** 2}
    for name, ref in want.items():
        owner, f, _ = model.find_member(LONG, name)
        if f is None:
            raise AnalysisError(f"anchor vanished: {LONG}.{name}")
        got = norm(ev.get_attr(obj, name))
        same, why = compare(got, ref)
        ctx.check(same, f"bose.{name}", model.where(f"{owner}.{name}", f), expected=str(ref),
                  found=short(got)[:300],
                  explanation=f"Bose factor {name} is not {ref} (with E = exp(hc*nu/(kB*T))): {why}", key=f"bose.{name}")
        # both classes must use the same factor (no override in the subclass with another form)
        o2, f2, _ = model.find_member(OFFD, name)
        if f2 is not f:
            got2 = norm(ev.get_attr(Obj(OFFD), name))
            same2, why2 = compare(got2, ref)
            ctx.check(same2, f"bose.offd.{name}", model.where(f"{o2}.{name}", f2), expected=str(ref), found=str(got2)[:300],
                      explanation=f"overriding Bose factor {name} differs: {why2}", key=f"bose.offd.{name}")


def r_history(ctx, model):
    """a second calculation in the same process (same (T,V) grid, other phonon data) obeys the same identities:
    the formulas of a second object are folded in the SAME evaluator session, so module-level state written by the
    first (caches keyed by part of the inputs) is visible to it"""
    from ..facts import CALC, ROLE_VALUE
    ref = reference()
    ev = make_ev(ctx, model)
    first = {}
    # the second calculator is a NEW object: it has the attributes a calculator is given, not those the analysed code attached to the first one while it ran
    given = dict(ev.seeds[(LONG, "calculator")].attrs)
    for cref in (LONG, OFFD):
        for attr in ("zero_point_contribution", "thermal_contribution", "isothermal_to_adiabatic"):
            first[(cref, attr)] = norm(ev.get_attr(Obj(cref), attr))
    FB, GB, VB = sp.symbols("FREQ GAMMA VDR", real=True)       # same names, new session objects below
    F2, G2, V2 = sp.Symbol("FREQ_B", real=True), sp.Symbol("GAMMA_B", real=True), sp.Symbol("VDR_B", real=True)
    calc1 = ev.seeds[(LONG, "calculator")]
    calc2 = Obj(CALC, dict(given))
    calc2.attrs.pop("_prop_cache", None)
    calc2.attrs["freq_array"] = F2 * U.UNIT_TABLE["cm"]
    from ..sym import Tup
    calc2.attrs["mode_gamma"] = Tup([V2, G2, G2 ** 2], "list")
    sub = {FREQ: F2, GAMMA: G2, VDR: V2}
    E2 = sp.Symbol("E_B", positive=True)
    q2 = QPHYS.subs(FREQ, F2)
    for kind, cref in (("long", LONG), ("offd", OFFD)):
        obj = Obj(cref, {"calculator": calc2, "e": Tup([E0, E1]), "q_weights": sp.Symbol("W", positive=True)})
        for part, attr in (("zp", "zero_point_contribution"), ("th", "thermal_contribution")):
            owner, f, _ = model.find_member(cref, attr)
            got = bose(bose(sp.sympify(as_sym(ev.get_attr(obj, attr))), q2, E2), QPHYS, E)
            want = bose(bose(expected(kind, part, ref).subs(sub, simultaneous=True), q2, E2), QPHYS, E)
            if kind == "long":
                got, want = got.subs(E1, E0), want.subs(E1, E0)
            same, why = compare(got, want, {F2, G2, V2, E2} | MODE_DEP)
            ctx.check(same, f"second calculation in the process: {kind}.{attr}", model.where(f"{owner}.{attr}", f),
                      expected="the same identity with the second calculation's own spectrum", found=why[:300] or "as required",
                      explanation=f"{attr} of a second calculation on the same (T,V) grid but with another spectrum is built from the FIRST "
                                  f"calculation's data (process-wide cache keyed by part of the inputs): {why[:200]}", key=f"history.{kind}.{attr}")


# ------------------------------------------------------------------ masks
def r_mask(ctx, model):
    ev = make_ev(ctx, model)
    for kind, cref in (("long", LONG), ("offd", OFFD)):
        owner, f, _ = model.find_member(cref, "thermal_contribution")
        w = model.where(f"{owner}.thermal_contribution", f)
        v = ev.get_attr(Obj(cref), "thermal_contribution")
        ok, found = check_t0_mask(v)
        ctx.check(ok, f"{kind}.thermal_contribution T=0 rows", w, expected="rows t_array == 0 set to 0 after the arithmetic",
                  found=found, explanation="thermal contribution is not zeroed on the T = 0 rows (it is 0*inf = NaN there)",
                  key=f"{kind}.thermal_contribution.t0mask")


def check_t0_mask(v):
    if not isinstance(v, Masked) or not v.masks:
        return False, "no masked store reaches the returned value"
    texts = []
    for mrec in v.masks:
        c = mrec.cond
        texts.append(f"[{mrec.index_src}] = {mrec.value}")
        if not isinstance(c, CondV):
            continue
        lhs, rhs, op = c.lhs, c.rhs, c.op
        if sp.sympify(rhs) != 0 and sp.sympify(lhs) == 0:
            lhs, rhs = rhs, lhs
            op = {"<": ">", ">": "<", "<=": ">=", ">=": "<="}.get(op, op)
        is_t = sp.simplify(sp.sympify(lhs) - T / U.K) == 0
        if is_t and sp.sympify(rhs) == 0 and op in ("==", "<=") and sp.sympify(mrec.value) == 0 and mrec.axis == 0 and mrec.rest_full:
            return True, "; ".join(texts)
    return False, "; ".join(texts)


# ------------------------------------------------------------------ average_over_modes / clear_gamma_point
def mode_average_reference(X, ws, nq, np_):
    """(sum_q w_q * (1/np) sum_m X'_qm) / sum_q w_q with X'_{0,m<3} = 0"""
    tot = sp.Integer(0)
    for j in range(nq):
        row = sum(sp.Integer(0) if (j == 0 and k < 3) else X[(j, k)] for k in range(np_)) / np_
        tot += ws[j] * row
    return tot / sum(ws)


def r_average(ctx, model):
    """the mode average is folded on symbolic (grid..., nq, np) tables with one atom per (q, mode) cell and one per q-point weight:
    the result is (sum_q w_q mean_m X'_qm) / sum_q w_q with the three acoustic Gamma cells replaced by 0, and the argument is left
    as it was (the mask is applied to a private copy); the method wrapper is folded with the weights read from qha_input.weights"""
    from ..sym import ArrV, RaisedV
    ref = f"{NS}:average_over_modes"
    f = model.func(ref)
    ctx.fn(ref)
    ctx.fn(f"{NS}:clear_gamma_point")
    w = model.where(ref, f)
    mod = model.mods[NS]
    if len(f.args.args) < 2 or len(f.args.args) - len(f.args.defaults) > 2:
        raise AnalysisError("average_over_modes no longer takes (amount, q_weights)")
    # further parameters with defaults: folded at their defaults here; what the callers pass is seen by the cell-by-cell fold R01.13

    def table(batch, nq, np_):
        cells = {(j, k): sp.Symbol(f"X_{j}_{k}", real=True) for j in range(nq) for k in range(np_)}
        return ArrV(batch, (nq, np_), cells=dict(cells)), cells

    n = 0
    for batch, nq, np_ in ((2, 2, 4), (1, 2, 4), (2, 1, 5), (2, 3, 3), (1, 3, 6)):
        X, cells = table(batch, nq, np_)
        ws = [sp.Symbol(f"W_{j}", positive=True) for j in range(nq)]
        Wv = ArrV(0, (nq,), cells={(j,): ws[j] for j in range(nq)})
        ev = Ev(model, {}, {}, ctx=ctx)
        label = f"{batch + 2}-d table, {nq} q-points x {np_} modes"
        try:
            out = ev.call_def(f, mod, ref, [X, Wv], {})
        except RaisedV as e:
            ctx.violation(f"average_over_modes.{batch}.{nq}x{np_}", w, "the weighted mode average", f"raises {e.exc_name} at {e.where}",
                          f"average_over_modes raises {e.exc_name} on a {label}", instance=label)
            continue
        except AnalysisError as e:
            on = getattr(e, "tolerance_test_on", None)
            if on and any(x.startswith("W_") for x in on):
                # an absolute-tolerance test applied to the q-point weights themselves
                ctx.violation(f"average_over_modes.{batch}.{nq}x{np_}.weight-tolerance", w, "weights enter only through sum_q w_q X_q / sum_q w_q",
                              f"numpy.isclose / allclose applied to the weights {on}",
                              f"average_over_modes tests the q-point weights against an absolute tolerance (numpy.isclose's atol = 1e-8): q-points are kept or "
                              f"dropped depending on the overall scale of the weights, so multiplying all weights by a common factor changes the result", instance=label)
                continue
            raise
        n += 1
        want = mode_average_reference(cells, ws, nq, np_)
        ok = not isinstance(out, ArrV) and is_zero(as_sym(out) - want)
        ctx.check(ok, f"{label}: (sum_q w_q mean_m X_qm)/sum_q w_q with the Gamma acoustic cells zeroed", w,
                  expected=short(want, 200), found=(f"an array of shape {out.shape}" if isinstance(out, ArrV) else short(as_sym(out), 200)),
                  explanation="the mode average is not the unweighted mean over the modes followed by the q-weight-normalised mean over the q-points "
                              "with exactly the three acoustic modes of the first q-point masked", key=f"average_over_modes.{batch}.{nq}x{np_}")
        same = all(X.get(kk) == v for kk, v in cells.items())
        ctx.check(same, f"{label}: the caller's array is left unchanged (mask on a private copy)", w, expected="amount not modified",
                  found="unchanged" if same else "cells " + str(sorted(kk for kk, v in cells.items() if X.get(kk) != v)[:4]) + " overwritten",
                  explanation="the Gamma mask is written into the caller's array: a shared (cached) array is mutated", key=f"average_over_modes.{batch}.{nq}x{np_}.copy")
    ctx.floor("table shapes folded", n, 5)

    # method wrapper + q_weights property: weights are the second field of qha_input.weights, in file order
    owner, m, _ = model.find_member(LONG, "average_over_modes")
    mw = model.where(f"{owner}.average_over_modes", m)
    ctx.fn(f"{owner}.average_over_modes")
    ctx.fn(f"{model.find_member(LONG, 'q_weights')[0]}.q_weights")
    nq, np_ = 3, 4
    X, cells = table(2, nq, np_)
    ws = [sp.Symbol(f"W_{j}", positive=True) for j in range(nq)]
    wl = Tup([Tup([Tup([sp.Symbol(f"QX{j}"), sp.Symbol(f"QY{j}"), sp.Symbol(f"QZ{j}")]), ws[j]]) for j in range(nq)], "list")
    calc = Obj(CALC, {"qha_input": Obj("cij.io.traditional.qha_input:QHAInputData", {"weights": wl})})
    for cref in (LONG, OFFD):
        ev = Ev(model, {}, {}, ctx=ctx)
        obj = Obj(cref, {"calculator": calc})
        try:
            out = ev.call(ev.get_attr(obj, "average_over_modes"), [X], {})
        except RaisedV as e:
            ctx.violation(f"method.average_over_modes.{cref.split(':')[1][:4]}", mw, "the weighted mode average", f"raises {e.exc_name}", f"the method average_over_modes raises {e.exc_name}")
            continue
        want = mode_average_reference(cells, ws, nq, np_)
        ok = not isinstance(out, ArrV) and is_zero(as_sym(out) - want)
        ctx.check(ok, f"{cref.split(':')[1][:12]}..: method average uses the q-point weights of qha_input.weights in file order", mw,
                  expected=short(want, 160), found=short(as_sym(out), 160) if not isinstance(out, ArrV) else "an array",
                  explanation="the weights handed to the mode average are not the weight field of the (coord, weight) records in file order",
                  key=f"method.average_over_modes.{cref.split(':')[1][:4]}")


# ------------------------------------------------------------------ producer / consumer of mode_gamma
def r_binding(ctx, model):
    roles, n = interpolate_modes_roles(model)
    f = model.func("cij.core.mode_gamma:interpolate_modes")
    ctx.fn("cij.core.mode_gamma:interpolate_modes")
    ctx.check(roles == [0, 1, 2], "interpolate_modes returns (omega, gamma, V dgamma/dV)", model.where("cij.core.mode_gamma:interpolate_modes", f),
              expected="[0, 1, 2] (derivative order by position)", found=str(roles),
              explanation="the arrays returned by interpolate_modes are not in the order its helpers fill them "
                          "(frequency, first, second logarithmic derivative)", key="interpolate_modes.return_order")
    ctx.floor("helper call sites in interpolate_modes", n, 5)
    # consumer: Calculator._interpolate_modes builds [VDR, GAMMA, GAMMA**2] and freq_array = FREQ
    ev = make_ev(ctx, model)
    calc = ev.seeds[(LONG, "calculator")]
    ref = f"{CALC}._interpolate_modes"
    w = model.where(ref)
    mg = ev.get_attr(calc, "mode_gamma")
    fa = ev.get_attr(calc, "freq_array")
    from ..sym import Tup
    try:
        got = [sp.simplify(as_sym(x)) for x in ev.iterate(mg)]       # a list, a tuple or a NamedTuple: indexed alike by every consumer
    except AnalysisError:
        got = None
    ctx.check(got == [VDR, GAMMA, GAMMA ** 2], "Calculator.mode_gamma = [V dgamma/dV, gamma, gamma^2]", w,
              expected="[VDR, GAMMA, GAMMA**2]", found=str(got),
              explanation="the list every consumer indexes as [V dgamma/dV, gamma, gamma^2] is built in another order "
                          "or from other arrays", key="Calculator.mode_gamma")
    ctx.check(sp.simplify(as_sym(fa) - FREQ * U.UNIT_TABLE["cm"]) == 0, "Calculator.freq_array = interpolated frequency", w,
              expected="FREQ", found=str(fa), explanation="freq_array is not the interpolated frequency array",
              key="Calculator.freq_array")


def r_constructor(ctx, model):
    """the strain fractions and the calculator reach the formulas as given: the constructor stores its arguments unchanged
    (the other rules start from `self.e = (e_i, e_j)`; this rule discharges that starting point)"""
    from ..sym import Tup, RaisedV
    seeds, intr, calc = physics_seeds(model)
    for cref in (LONG, OFFD):
        for key in list(seeds):
            if key[0] in (LONG, OFFD) and key[1] in ("e", "calculator"):
                del seeds[key]
        ev = Ev(model, seeds, intr, ctx=ctx)
        owner, f, _ = model.find_member(cref, "__init__")
        if f is None:
            raise AnalysisError(f"anchor vanished: {cref}.__init__")
        w = model.where(f"{owner}.__init__", f)
        e_in = Tup([E0, E1])
        try:
            obj = ev.construct(cref, [calc, e_in], {})
            e_got = ev.get_attr(obj, "e")
            c_got = ev.get_attr(obj, "calculator")
        except RaisedV as ex:
            ctx.violation(f"{cref.split(':')[1]}.__init__.raises", w, "the contribution object is constructed", f"raises {ex.exc_name}",
                          f"constructing {cref.split(':')[1]} with valid strain fractions raises {ex.exc_name}")
            continue
        items = e_got.items if isinstance(e_got, Tup) else None
        same = items is not None and len(items) == 2 and all(sp.simplify(as_sym(a) - b) == 0 for a, b in zip(items, (E0, E1)))
        ctx.check(same and c_got is calc, f"{cref.split(':')[1]}: constructor keeps (e_i, e_j) and the calculator as given", w,
                  expected="self.e = e; self.calculator = calculator", found=f"e = {items if items is not None else e_got}; calculator {'kept' if c_got is calc else 'replaced'}",
                  explanation="the strain fractions that enter the prefactors 1/(5 e^2), 1/(3 e), 1/(15 e_i e_j) are not the ones the object "
                              "was constructed with (clamped, rounded, reordered or rescaled in the constructor)", key=f"{cref.split(':')[1]}.init")


RULES = [
    ("R01.12", "constructors store the strain fractions and the calculator unchanged", r_constructor),
    ("R01.1-4", "zero-point and thermal contributions of both non-shear classes equal the strain derivatives of F "
                "(AVG-linear normal form, quantity calculus; reference derived by differentiating F)", r_formulas),
    ("R01.13", "the same bodies folded cell by cell on a 2 x 4 (q, m) grid through the real reduction code: weight of every cell", r_cells),
    ("R01.5", "isothermal value = zero-point + thermal (+ P_total - P_static for off-diagonal)", r_total),
    ("R01.6", "Bose factors Q, Q1, Q2 as rational functions of E = exp(hc nu / kT)", r_bose),
    ("R01.7", "mode average: unweighted mean over modes, weighted mean over q with q_weights; Gamma mask (q=0, m<3) on a copy", r_average),
    ("R01.9", "thermal parts are zeroed on T = 0 rows after the arithmetic", r_mask),
    ("R01.10", "mode_gamma producer/consumer order bound through interpolate_modes' return order", r_binding),
    ("R01.11", "a second calculation folded in the same session (same grid, other spectrum) obeys the same identities", r_history),
]
