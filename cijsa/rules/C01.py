"""C01 — thermal c11..c33, c12, c13, c23 are strain derivatives of the QHA free energy."""
from __future__ import annotations

import ast

import sympy as sp

from .. import units as U
from ..anf import bose, compare, short, is_zero
from ..facts import (physics_seeds, interpolate_modes_roles, LONG, OFFD, CALC, FREQ, GAMMA, VDR, T, V, E0, E1, NAT,
                     E, PTV, PSTAT, QPHYS, MODE_DEP)
from ..model import dotted_name, src, body_wo_doc, is_logging_stmt
from ..report import AnalysisError, Where
from ..sym import Ev, Obj, Masked, AVG, as_sym, CondV

NS = "cij.core.phonon_contribution.nonshear"
AU = U.Ry / U.bohr ** 3

LEVEL = "other"
EXPLANATION = (
    "Static analysis decides the structural clauses of C01: the zero-point and thermal bodies of both non-shear "
    "classes (resolved through the MRO, properties inlined) are normalised to exact rational functions over the "
    "atoms FREQ, GAMMA, VDR, E=exp(hc*nu/kT), T, V, E0, E1, NAT, with the mode average as a linear functional and "
    "unit names as symbols (quantity calculus), and compared with a reference that is derived mechanically by "
    "differentiating the per-mode free energy of the property statement. Also decided: pressure term of the "
    "off-diagonal class, Bose factors, reduction axes and Gamma mask of the mode average, T=0 masking, "
    "producer/consumer order of mode_gamma.")
NOT_DECIDED = ("agreement with finite differences of F on concrete spectra; numpy's floating-point arithmetic; "
               "accuracy of the interpolated gamma.")
ASSUMPTIONS = [
    "T-LIB: numpy.average(weights=w) divides by sum(w); numpy broadcasting as documented",
    "T-LIB: qha Calculator attributes finer_volumes_bohr3 [bohr^3], temperature_array [K], p_tv_au [Ry/bohr^3]",
    "input units: frequencies cm^-1, volumes bohr^3 (documented input format)",
    "pint conversion factors and CODATA values from scipy.constants are trusted",
]


# ------------------------------------------------------------------ reference, derived from F
def reference():
    """per-mode free energy -> (P_zp, A_zp, P_th, A_th) per mode, as functions of the atoms."""
    Vs = sp.Symbol("Vs", positive=True)
    nu = sp.Function("nu")(Vs)
    gam = sp.Function("gam")(Vs)
    hw = U.HC * nu
    f_zp = hw / 2
    f_th = U.KB * T * sp.log(1 - sp.exp(-hw / (U.KB * T)))
    out = {}
    for tag, f in (("zp", f_zp), ("th", f_th)):
        d1 = sp.diff(f, Vs)
        d2 = sp.diff(f, Vs, 2)
        subs2 = {sp.Derivative(nu, (Vs, 2)): sp.diff(-gam * nu / Vs, Vs)}
        d2 = d2.subs(subs2).doit()
        rules = {sp.Derivative(nu, Vs): -gam * nu / Vs, sp.Derivative(gam, Vs): VDR / Vs}
        d1 = d1.subs(rules)
        d2 = d2.subs(rules).subs(rules)
        P = -d1
        A = Vs * d2 - P
        fin = {nu: FREQ, gam: GAMMA, Vs: V}
        out["P_" + tag] = sp.simplify(P.subs(fin))
        out["A_" + tag] = sp.simplify(A.subs(fin))
    return out


def expected(kind: str, part: str, ref):
    """reference value (physical / (Ry/bohr^3)) of the zero-point ('zp') or thermal ('th') part"""
    A, P = ref["A_" + part], ref["P_" + part]
    if kind == "long":
        per_mode = A / (5 * E0 * E1) + P / (3 * E0)
    else:
        per_mode = A / (15 * E0 * E1)
    return 3 * NAT * AVG(per_mode) / AU


def make_ev(ctx, model):
    seeds, intr, calc = physics_seeds(model)
    ev = Ev(model, seeds, intr, ctx=ctx)
    return ev


def norm(x):
    return bose(sp.sympify(as_sym(x)), QPHYS, E)


def r_formulas(ctx, model):
    ref = reference()
    ev = make_ev(ctx, model)
    for kind, cref in (("long", LONG), ("offd", OFFD)):
        obj = Obj(cref)
        for part, attr in (("zp", "zero_point_contribution"), ("th", "thermal_contribution")):
            owner, f, k = model.find_member(cref, attr)
            if f is None:
                raise AnalysisError(f"anchor vanished: {cref}.{attr}")
            w = model.where(f"{owner}.{attr}", f)
            got = norm(ev.get_attr(obj, attr))
            want = bose(expected(kind, part, ref), QPHYS, E)
            if kind == "long":
                got, want = got.subs(E1, E0), want.subs(E1, E0)
            same, why = compare(got, want, MODE_DEP)
            ctx.check(same, f"{kind}.{attr}", w,
                      expected=f"3*NAT*AVG[A_{part}/({5 if kind == 'long' else 15}*e_i*e_j)"
                               + (f" + P_{part}/(3*e_i)" if kind == "long" else "") + "] / (Ry/bohr^3)",
                      found=short(got)[:500] if not same else "equal to the reference on the AVG basis",
                      explanation=f"{attr} of the {kind} class differs from the strain derivative of F: {why}",
                      key=f"{kind}.{attr}")
    ctx.call_sites += ev.call_sites


def r_total(ctx, model):
    ev = make_ev(ctx, model)
    for kind, cref in (("long", LONG), ("offd", OFFD)):
        obj = Obj(cref)
        owner, f, _ = model.find_member(cref, "value_isothermal")
        if f is None:
            raise AnalysisError(f"anchor vanished: {cref}.value_isothermal")
        w = model.where(f"{owner}.value_isothermal", f)
        tot = norm(ev.get_attr(obj, "value_isothermal"))
        parts = norm(ev.get_attr(obj, "zero_point_contribution")) + norm(ev.get_attr(obj, "thermal_contribution"))
        want = sp.Integer(0) if kind == "long" else (PTV - PSTAT) / AU
        same, why = compare(tot - parts, want, MODE_DEP)
        ctx.check(same, f"{kind}.value_isothermal", w,
                  expected="zero_point + thermal" + (" + (P_total(T,V) - P_static(V))" if kind == "offd" else ""),
                  found=short(tot - parts)[:300] if not same else "as required",
                  explanation=f"isothermal value of the {kind} class is not zero-point + thermal"
                              + (" + total pressure - static pressure" if kind == "offd" else "") + f": {why}",
                  key=f"{kind}.value_isothermal")


def r_bose(ctx, model):
    ev = make_ev(ctx, model)
    obj = Obj(LONG)
    q = sp.Symbol("Qx", positive=True)
    want = {"Q": QPHYS, "Q1": QPHYS / (E - 1), "Q2": QPHYS ** 2 * E / (E - 1) ** 2}
    for name, ref in want.items():
        owner, f, _ = model.find_member(LONG, name)
        if f is None:
            raise AnalysisError(f"anchor vanished: {LONG}.{name}")
        got = norm(ev.get_attr(obj, name))
        same, why = compare(got, ref)
        ctx.check(same, f"bose.{name}", model.where(f"{owner}.{name}", f), expected=str(ref),
                  found=short(got)[:300],
                  explanation=f"Bose factor {name} is not {ref} (with E = exp(hc*nu/(kB*T))): {why}", key=f"bose.{name}")
        # both classes must use the same factor (no override in the subclass with another form)
        o2, f2, _ = model.find_member(OFFD, name)
        if f2 is not f:
            got2 = norm(ev.get_attr(Obj(OFFD), name))
            same2, why2 = compare(got2, ref)
            ctx.check(same2, f"bose.offd.{name}", model.where(f"{o2}.{name}", f2), expected=str(ref), found=str(got2)[:300],
                      explanation=f"overriding Bose factor {name} differs: {why2}", key=f"bose.offd.{name}")


def r_history(ctx, model):
    """a second calculation in the same process (same (T,V) grid, other phonon data) obeys the same identities:
    the formulas of a second object are folded in the SAME evaluator session, so module-level state written by the
    first (caches keyed by part of the inputs) is visible to it"""
    from ..facts import CALC, ROLE_VALUE
    ref = reference()
    ev = make_ev(ctx, model)
    first = {}
    for cref in (LONG, OFFD):
        for attr in ("zero_point_contribution", "thermal_contribution", "isothermal_to_adiabatic"):
            first[(cref, attr)] = norm(ev.get_attr(Obj(cref), attr))
    FB, GB, VB = sp.symbols("FREQ GAMMA VDR", real=True)       # same names, new session objects below
    F2, G2, V2 = sp.Symbol("FREQ_B", real=True), sp.Symbol("GAMMA_B", real=True), sp.Symbol("VDR_B", real=True)
    calc1 = ev.seeds[(LONG, "calculator")]
    calc2 = Obj(CALC, dict(calc1.attrs))
    calc2.attrs.pop("_prop_cache", None)
    calc2.attrs["freq_array"] = F2 * U.UNIT_TABLE["cm"]
    from ..sym import Tup
    calc2.attrs["mode_gamma"] = Tup([V2, G2, G2 ** 2], "list")
    sub = {FREQ: F2, GAMMA: G2, VDR: V2}
    E2 = sp.Symbol("E_B", positive=True)
    q2 = QPHYS.subs(FREQ, F2)
    for kind, cref in (("long", LONG), ("offd", OFFD)):
        obj = Obj(cref, {"calculator": calc2, "e": Tup([E0, E1]), "q_weights": sp.Symbol("W", positive=True)})
        for part, attr in (("zp", "zero_point_contribution"), ("th", "thermal_contribution")):
            owner, f, _ = model.find_member(cref, attr)
            got = bose(bose(sp.sympify(as_sym(ev.get_attr(obj, attr))), q2, E2), QPHYS, E)
            want = bose(bose(expected(kind, part, ref).subs(sub, simultaneous=True), q2, E2), QPHYS, E)
            if kind == "long":
                got, want = got.subs(E1, E0), want.subs(E1, E0)
            same, why = compare(got, want, {F2, G2, V2, E2} | MODE_DEP)
            ctx.check(same, f"second calculation in the process: {kind}.{attr}", model.where(f"{owner}.{attr}", f),
                      expected="the same identity with the second calculation's own spectrum", found=why[:300] or "as required",
                      explanation=f"{attr} of a second calculation on the same (T,V) grid but with another spectrum is built from the FIRST "
                                  f"calculation's data (process-wide cache keyed by part of the inputs): {why[:200]}", key=f"history.{kind}.{attr}")


# ------------------------------------------------------------------ masks
def r_mask(ctx, model):
    ev = make_ev(ctx, model)
    for kind, cref in (("long", LONG), ("offd", OFFD)):
        owner, f, _ = model.find_member(cref, "thermal_contribution")
        w = model.where(f"{owner}.thermal_contribution", f)
        v = ev.get_attr(Obj(cref), "thermal_contribution")
        ok, found = check_t0_mask(v)
        ctx.check(ok, f"{kind}.thermal_contribution T=0 rows", w, expected="rows t_array == 0 set to 0 after the arithmetic",
                  found=found, explanation="thermal contribution is not zeroed on the T = 0 rows (it is 0*inf = NaN there)",
                  key=f"{kind}.thermal_contribution.t0mask")


def check_t0_mask(v):
    if not isinstance(v, Masked) or not v.masks:
        return False, "no masked store reaches the returned value"
    texts = []
    for mrec in v.masks:
        c = mrec.cond
        texts.append(f"[{mrec.index_src}] = {mrec.value}")
        if not isinstance(c, CondV):
            continue
        lhs, rhs, op = c.lhs, c.rhs, c.op
        if sp.sympify(rhs) != 0 and sp.sympify(lhs) == 0:
            lhs, rhs = rhs, lhs
            op = {"<": ">", ">": "<", "<=": ">=", ">=": "<="}.get(op, op)
        is_t = sp.simplify(sp.sympify(lhs) - T / U.K) == 0
        if is_t and sp.sympify(rhs) == 0 and op in ("==", "<=") and sp.sympify(mrec.value) == 0 and mrec.axis == 0 and mrec.rest_full:
            return True, "; ".join(texts)
    return False, "; ".join(texts)


# ------------------------------------------------------------------ average_over_modes / clear_gamma_point
def axis_of(node, dims_names):
    """-> ('abs', k) for index k>=0, ('end', k) for the k-th axis from the end (k>=1)"""
    if isinstance(node, ast.UnaryOp) and isinstance(node.op, ast.USub) and isinstance(node.operand, ast.Constant):
        return ("end", int(node.operand.value))
    if isinstance(node, ast.Constant) and isinstance(node.value, int):
        return ("abs", node.value) if node.value >= 0 else ("end", -node.value)
    if (isinstance(node, ast.BinOp) and isinstance(node.op, ast.Sub) and isinstance(node.left, ast.Name)
            and node.left.id in dims_names and isinstance(node.right, ast.Constant)):
        return ("rank-", int(node.right.value))
    raise AnalysisError(f"unrecognised axis expression {src(node)}")


def rank_names(f):
    """names bound to len(<param>.shape) or <param>.ndim"""
    out = {}
    for st in body_wo_doc(f):
        if isinstance(st, ast.Assign) and len(st.targets) == 1 and isinstance(st.targets[0], ast.Name):
            v = st.value
            if (isinstance(v, ast.Call) and dotted_name(v.func) == "len" and len(v.args) == 1
                    and isinstance(v.args[0], ast.Attribute) and v.args[0].attr == "shape"
                    and isinstance(v.args[0].value, ast.Name)):
                out[st.targets[0].id] = v.args[0].value.id
            if isinstance(v, ast.Attribute) and v.attr == "ndim" and isinstance(v.value, ast.Name):
                out[st.targets[0].id] = v.value.id
    return out


def r_average(ctx, model):
    ref = f"{NS}:average_over_modes"
    f = model.func(ref)
    ctx.fn(ref)
    w = model.where(ref, f)
    params = [a.arg for a in f.args.args]
    if len(params) != 2:
        raise AnalysisError("average_over_modes no longer takes (amount, q_weights)")
    amount, weights = params
    dims = rank_names(f)
    body = [s for s in body_wo_doc(f) if not is_logging_stmt(s)]
    # 1. copy, 2. clear on the copy, 3. return nested averages
    copies = {}
    cleared = []
    ret = None
    for st in body:
        if isinstance(st, ast.Assign) and len(st.targets) == 1 and isinstance(st.targets[0], ast.Name):
            v = st.value
            tgt = st.targets[0].id
            if isinstance(v, ast.Call):
                fn = dotted_name(v.func) or ""
                if fn.endswith(".copy") and isinstance(v.func, ast.Attribute) and isinstance(v.func.value, ast.Name) \
                        and v.func.value.id == amount and not v.args:
                    copies[tgt] = st.lineno
                    continue
                if fn in ("numpy.copy", "numpy.array") and v.args and isinstance(v.args[0], ast.Name) and v.args[0].id == amount:
                    copies[tgt] = st.lineno
                    continue
            if tgt in dims:
                continue
            if isinstance(v, ast.Name):
                continue  # plain alias: not a copy
            raise AnalysisError(f"unrecognised statement in average_over_modes: {src(st)[:80]}")
        elif isinstance(st, ast.Expr) and isinstance(st.value, ast.Call):
            fn = dotted_name(st.value.func) or ""
            if fn.split(".")[-1] == "clear_gamma_point" and len(st.value.args) == 1 and isinstance(st.value.args[0], ast.Name):
                cleared.append((st.value.args[0].id, st.lineno))
                continue
            raise AnalysisError(f"unrecognised call in average_over_modes: {src(st)[:80]}")
        elif isinstance(st, ast.Return):
            ret = st
        else:
            raise AnalysisError(f"unrecognised statement in average_over_modes: {src(st)[:80]}")
    if ret is None:
        raise AnalysisError("average_over_modes has no return")

    def avg_call(node):
        if not isinstance(node, ast.Call):
            return None
        fn = dotted_name(node.func) or ""
        if fn not in ("numpy.average", "numpy.mean"):
            return None
        kw = {k.arg: k.value for k in node.keywords}
        arr = node.args[0] if node.args else kw.get("a")
        axis = kw.get("axis", node.args[1] if len(node.args) > 1 else None)
        wts = kw.get("weights", node.args[3] if len(node.args) > 3 else None)
        return fn, arr, axis, wts

    def sum_form(node):
        """numpy.sum(inner * w, axis=k) [/ numpy.sum(w)] -> (normalised?, inner node, axis node, weights node)"""
        normalised = False
        if isinstance(node, ast.BinOp) and isinstance(node.op, ast.Div) and isinstance(node.right, ast.Call) \
                and dotted_name(node.right.func) == "numpy.sum" and len(node.right.args) == 1 and isinstance(node.right.args[0], ast.Name):
            normalised, wn, node = True, node.right.args[0], node.left
        else:
            wn = None
        if isinstance(node, ast.Call) and dotted_name(node.func) == "numpy.sum" and node.args and isinstance(node.args[0], ast.BinOp) \
                and isinstance(node.args[0].op, ast.Mult):
            kw = {k.arg: k.value for k in node.keywords}
            l, r = node.args[0].left, node.args[0].right
            if isinstance(l, ast.Name):
                l, r = r, l
            if isinstance(r, ast.Name) and (wn is None or wn.id == r.id):
                return normalised, l, kw.get("axis", node.args[1] if len(node.args) > 1 else None), r
        return None

    outer = avg_call(ret.value)
    sf = sum_form(ret.value) if not outer else None
    if sf:
        normalised, inner_node, axis_node, wnode = sf
        outer = ("numpy.average" if normalised else "numpy.sum (weights not normalised)", inner_node, axis_node, wnode)
    inner = avg_call(outer[1]) if outer else None
    if not outer or not inner:
        raise AnalysisError(f"average_over_modes does not return nested numpy.average calls: {src(ret.value)[:100]}")
    src_name = inner[1].id if isinstance(inner[1], ast.Name) else None
    ok_copy = src_name in copies and any(n == src_name and ln > copies[src_name] and ln < ret.lineno for n, ln in cleared)
    ctx.check(ok_copy, "Gamma mask applied to a fresh copy before averaging", w,
              expected="x = amount.copy(); clear_gamma_point(x); average(x)",
              found=f"averaged array {src(inner[1])}; copies {sorted(copies)}; cleared {[c for c, _ in cleared]}",
              explanation="the Gamma acoustic entries (0/0 in every Bose factor) must be overwritten on a private copy "
                          "before the reduction; otherwise NaN enters the sum or a shared array is mutated",
              key="average_over_modes.copy_clear")
    a_in = axis_of(inner[2], dims) if inner[2] is not None else None
    ok_in = inner[3] is None and a_in in (("end", 1), ("rank-", 1))
    ctx.check(ok_in, "inner reduction: unweighted mean over the mode axis (last)", w, expected="axis = last, no weights",
              found=f"axis={src(inner[2]) if inner[2] is not None else None} weights={src(inner[3]) if inner[3] is not None else None}",
              explanation="the mean over the 3N modes must be unweighted and over the last axis", key="average_over_modes.inner")
    a_out = axis_of(outer[2], dims) if outer[2] is not None else None
    ok_out = (isinstance(outer[3], ast.Name) and outer[3].id == weights and a_out in (("end", 1), ("rank-", 2))
              and outer[0] == "numpy.average")
    ctx.check(ok_out, "outer reduction: mean over q-points weighted by q_weights", w,
              expected="numpy.average(..., weights=q_weights, axis = q axis (last after the inner mean))",
              found=f"{outer[0]} axis={src(outer[2]) if outer[2] is not None else None} weights={src(outer[3]) if outer[3] is not None else None}",
              explanation="the q-point mean must use the (normalised) q-point weights on the q axis",
              key="average_over_modes.outer")

    # the method wrapper passes self.q_weights
    owner, m, _ = model.find_member(LONG, "average_over_modes")
    mw = model.where(f"{owner}.average_over_modes", m)
    ctx.fn(f"{owner}.average_over_modes")
    rets = [s for s in ast.walk(m) if isinstance(s, ast.Return)]
    okm = False
    if len(rets) == 1 and isinstance(rets[0].value, ast.Call):
        c = rets[0].value
        kw = {k.arg: k.value for k in c.keywords}
        a0 = c.args[0] if c.args else kw.get(amount)
        a1 = c.args[1] if len(c.args) > 1 else kw.get(weights)
        okm = ((dotted_name(c.func) or "").split(".")[-1] == "average_over_modes" and isinstance(a0, ast.Name)
               and a0.id == m.args.args[1].arg and src(a1) == f"{m.args.args[0].arg}.q_weights")
    ctx.check(okm, "method average_over_modes forwards (amount, self.q_weights)", mw, expected="average_over_modes(amount, self.q_weights)",
              found=src(rets[0].value) if rets else "no return", explanation="the weights handed to the mode average are not the q-point weights",
              key="method.average_over_modes")

    # q_weights property: weight field of every (coord, weight) pair, in file order
    owner, q, _ = model.find_member(LONG, "q_weights")
    qw = model.where(f"{owner}.q_weights", q)
    ctx.fn(f"{owner}.q_weights")
    rets = [s for s in ast.walk(q) if isinstance(s, ast.Return)]
    okq, found = False, src(rets[0].value) if rets else "no return"
    if len(rets) == 1:
        comp = rets[0].value
        if isinstance(comp, ast.Call) and (dotted_name(comp.func) or "") in ("numpy.array", "numpy.asarray") and comp.args:
            comp = comp.args[0]
        if isinstance(comp, (ast.ListComp, ast.GeneratorExp)) and len(comp.generators) == 1 and not comp.generators[0].ifs:
            g = comp.generators[0]
            it = src(g.iter)
            if it.endswith("qha_input.weights"):
                if isinstance(g.target, ast.Tuple) and len(g.target.elts) == 2 and isinstance(comp.elt, ast.Name) \
                        and isinstance(g.target.elts[1], ast.Name) and comp.elt.id == g.target.elts[1].id:
                    okq = True
                elif isinstance(g.target, ast.Name) and src(comp.elt) in (f"{g.target.id}.weight", f"{g.target.id}[1]"):
                    okq = True
    ctx.check(okq, "q_weights = weight field of qha_input.weights in file order", qw, expected="[weight for coord, weight in qha_input.weights]",
              found=found, explanation="the q-point weights are not the second field of the (coord, weight) records",
              key="q_weights")

    # clear_gamma_point
    cref = f"{NS}:clear_gamma_point"
    cg = model.func(cref)
    ctx.fn(cref)
    cw = model.where(cref, cg)
    mat = cg.args.args[0].arg
    cdims = rank_names(cg)
    stores = [s for s in ast.walk(cg) if isinstance(s, ast.Assign) and isinstance(s.targets[0], ast.Subscript)]
    if len(stores) != 1 or not (isinstance(stores[0].targets[0].value, ast.Name) and stores[0].targets[0].value.id == mat):
        raise AnalysisError("clear_gamma_point: expected exactly one store into its argument")
    st = stores[0]
    idx = st.targets[0].slice
    if isinstance(idx, ast.Name):
        defs = [s for s in body_wo_doc(cg) if isinstance(s, ast.Assign) and isinstance(s.targets[0], ast.Name)
                and s.targets[0].id == idx.id]
        if len(defs) != 1:
            raise AnalysisError("clear_gamma_point: index variable not defined exactly once")
        idx = defs[0].value
    lead, tail = parse_index(idx, cdims)
    ok = lead and len(tail) == 2 and tail[0] == ("int", 0) and tail[1] in (("slice", 0, 3), ("slice", None, 3)) \
        and isinstance(st.value, ast.Constant) and st.value.value == 0
    ctx.check(ok, "Gamma mask zeroes exactly (.., q=0, m=0:3)", cw, expected="mat[..., 0, 0:3] = 0",
              found=f"index {src(idx)} = {src(st.value)}", explanation="the Gamma-point mask must clear the three acoustic modes of the first q-point and nothing else",
              key="clear_gamma_point.index")


def parse_index(node, dims):
    """recognise tuple([slice(None)]*(dims-2) + [a, b]) and (..., a, b) -> (leading_ok, [tail items])"""
    def item(n):
        if isinstance(n, ast.Constant) and isinstance(n.value, int):
            return ("int", n.value)
        if isinstance(n, ast.Slice):
            g = lambda x: None if x is None else (x.value if isinstance(x, ast.Constant) else "?")
            if n.step is not None:
                return ("?",)
            return ("slice", g(n.lower), g(n.upper))
        if isinstance(n, ast.Call) and dotted_name(n.func) == "slice":
            vals = [a.value if isinstance(a, ast.Constant) else "?" for a in n.args]
            if len(vals) == 1:
                return ("slice", None, vals[0])
            if len(vals) == 2:
                return ("slice", vals[0], vals[1])
        return ("?",)

    if isinstance(node, ast.Call) and dotted_name(node.func) == "tuple" and len(node.args) == 1:
        node = node.args[0]
    if isinstance(node, ast.BinOp) and isinstance(node.op, ast.Add):
        left, right = node.left, node.right
        lead_ok = False
        if (isinstance(left, ast.BinOp) and isinstance(left.op, ast.Mult) and isinstance(left.left, ast.List)
                and len(left.left.elts) == 1 and item(left.left.elts[0]) == ("slice", None, None)):
            try:
                lead_ok = axis_of(left.right, dims) == ("rank-", 2)
            except AnalysisError:
                lead_ok = False
        if isinstance(right, (ast.List, ast.Tuple)):
            return lead_ok, [item(e) for e in right.elts]
        return False, []
    if isinstance(node, ast.Tuple) and node.elts and isinstance(node.elts[0], ast.Constant) and node.elts[0].value is Ellipsis:
        return True, [item(e) for e in node.elts[1:]]
    raise AnalysisError(f"unrecognised index construction {src(node)[:80]}")


# ------------------------------------------------------------------ producer / consumer of mode_gamma
def r_binding(ctx, model):
    roles, n = interpolate_modes_roles(model)
    f = model.func("cij.core.mode_gamma:interpolate_modes")
    ctx.fn("cij.core.mode_gamma:interpolate_modes")
    ctx.check(roles == [0, 1, 2], "interpolate_modes returns (omega, gamma, V dgamma/dV)", model.where("cij.core.mode_gamma:interpolate_modes", f),
              expected="[0, 1, 2] (derivative order by position)", found=str(roles),
              explanation="the arrays returned by interpolate_modes are not in the order its helpers fill them "
                          "(frequency, first, second logarithmic derivative)", key="interpolate_modes.return_order")
    ctx.floor("helper call sites in interpolate_modes", n, 5)
    # consumer: Calculator._interpolate_modes builds [VDR, GAMMA, GAMMA**2] and freq_array = FREQ
    ev = make_ev(ctx, model)
    calc = ev.seeds[(LONG, "calculator")]
    ref = f"{CALC}._interpolate_modes"
    w = model.where(ref)
    mg = ev.get_attr(calc, "mode_gamma")
    fa = ev.get_attr(calc, "freq_array")
    from ..sym import Tup
    got = [sp.simplify(as_sym(x)) for x in mg.items] if isinstance(mg, Tup) else None
    ctx.check(got == [VDR, GAMMA, GAMMA ** 2], "Calculator.mode_gamma = [V dgamma/dV, gamma, gamma^2]", w,
              expected="[VDR, GAMMA, GAMMA**2]", found=str(got),
              explanation="the list every consumer indexes as [V dgamma/dV, gamma, gamma^2] is built in another order "
                          "or from other arrays", key="Calculator.mode_gamma")
    ctx.check(sp.simplify(as_sym(fa) - FREQ * U.UNIT_TABLE["cm"]) == 0, "Calculator.freq_array = interpolated frequency", w,
              expected="FREQ", found=str(fa), explanation="freq_array is not the interpolated frequency array",
              key="Calculator.freq_array")


RULES = [
    ("R01.1-4", "zero-point and thermal contributions of both non-shear classes equal the strain derivatives of F "
                "(AVG-linear normal form, quantity calculus; reference derived by differentiating F)", r_formulas),
    ("R01.5", "isothermal value = zero-point + thermal (+ P_total - P_static for off-diagonal)", r_total),
    ("R01.6", "Bose factors Q, Q1, Q2 as rational functions of E = exp(hc nu / kT)", r_bose),
    ("R01.7", "mode average: unweighted mean over modes, weighted mean over q with q_weights; Gamma mask (q=0, m<3) on a copy", r_average),
    ("R01.9", "thermal parts are zeroed on T = 0 rows after the arithmetic", r_mask),
    ("R01.10", "mode_gamma producer/consumer order bound through interpolate_modes' return order", r_binding),
    ("R01.11", "a second calculation folded in the same session (same grid, other spectrum) obeys the same identities", r_history),
]
