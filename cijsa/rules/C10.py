"""C10 — Voigt/standard index algebra is a canonical 21-class quotient of the 81 tuples."""
from __future__ import annotations

import ast
import itertools

import sympy as sp

from ..facts import voigt_canon, V2S, MODREP, STRREP
from ..model import dotted_name, src
from ..report import AnalysisError
from ..sym import Ev, Obj, Tup, ClsV, RaisedV, hkey, EnumV, is_sym

VOIGT = "cij.util.voigt"
LEVEL = "other"
TECHNIQUE = "static analysis: table extraction + constant folding of the canonicalising constructors over the complete finite index domain"
EXPLANATION = (
    "Static analysis decides C10 on its complete finite domain: the two lookup tables are read from the source and "
    "compared with T-IDX (1->11 .. 6->12); the canonicalising constructors, views, multiplicity and classification of "
    "voigt.py are constant-folded (partial evaluation of their bodies, no import) for every one of the 81 standard "
    "tuples, 36 Voigt pairs, their string and integer spellings, the 9 strain index pairs and the out-of-range "
    "neighbours; the results are compared with an independent reference quotient (minor/major symmetry classes): "
    "21 classes, equality iff symmetry-related, spelling agreement, round trips, multiplicity = class size (sum 81), "
    "3/3/15 classification, rejection of out-of-range indices; equality/hash are the NamedTuple defaults.")
NOT_DECIDED = "behaviour of Python's sorted/int/str and NamedTuple equality (trusted language semantics)."
ASSUMPTIONS = ["NamedTuple equality and hashing are field-wise (no __eq__/__hash__ override: checked)",
               "Python semantics of sorted(), int(), str(), dict lookup as modelled by the constant folder"]


def canon_ref(i, j, k, l):
    """reference quotient: class representative under minor (ij), (kl) and major (ij)<->(kl) symmetry"""
    a, b = tuple(sorted((i, j))), tuple(sorted((k, l)))
    s2v = {v: k for k, v in V2S.items()}
    va, vb = sorted((s2v[a], s2v[b]))
    return (V2S[va], V2S[vb])


def r_tables(ctx, model):
    ev = Ev(model, ctx=ctx)
    mod = model.mod(VOIGT)
    v2s = ev.eval(model.glob(f"{VOIGT}:VOIGT_TO_STANDARD"), {}, mod)
    got = {hkey(k): hkey(v) for k, v in v2s.d.items()}
    w = model.where(f"{VOIGT}:StrainRepresentation")
    w.function, w.line = "VOIGT_TO_STANDARD", getattr(model.glob(f"{VOIGT}:VOIGT_TO_STANDARD"), "lineno", 0)
    ctx.check(got == V2S, "VOIGT_TO_STANDARD = T-IDX", w, expected=str(V2S), found=str(got),
              explanation="the Voigt -> standard table differs from 1->11, 2->22, 3->33, 4->23, 5->13, 6->12",
              key="VOIGT_TO_STANDARD")
    s2v = ev.from_resolution("global", f"{VOIGT}:STANDARD_TO_VOIGT")
    got2 = {hkey(k): hkey(v) for k, v in s2v.d.items()}
    w2 = model.where(f"{VOIGT}:StrainRepresentation")
    w2.function, w2.line = "STANDARD_TO_VOIGT", getattr(model.glob(f"{VOIGT}:STANDARD_TO_VOIGT"), "lineno", 0)
    ctx.check(got2 == {v: k for k, v in V2S.items()}, "STANDARD_TO_VOIGT = inverse table", w2,
              expected=str({v: k for k, v in V2S.items()}), found=str(got2),
              explanation="the standard -> Voigt table is not the inverse of T-IDX", key="STANDARD_TO_VOIGT")
    # default equality / hash
    for cname in ("StrainRepresentation", "ModulusRepresentation"):
        c = model.cls(f"{VOIGT}:{cname}")
        over = [n.name for n in c.body if isinstance(n, ast.FunctionDef) and n.name in ("__eq__", "__hash__", "__ne__", "__new__")]
        named = any((dotted_name(b) or "").endswith("NamedTuple") for b in c.bases)
        fields = [s.target.id for s in c.body if isinstance(s, ast.AnnAssign)]
        ctx.check(not over and named and fields == ["i", "j"], f"{cname}: NamedTuple(i, j) with default equality and hash",
                  model.where(f"{VOIGT}:{cname}", c), expected="NamedTuple fields (i, j), no __eq__/__hash__ override",
                  found=f"fields {fields}, overrides {over}", explanation="keys must compare and hash field-wise", key=f"{cname}.eq")
    # aliases c_ / e_ are the create constructors
    for alias, cls in (("c_", "ModulusRepresentation"), ("e_", "StrainRepresentation"), ("s_", "ModulusRepresentation")):
        v = ev.from_resolution("global", f"cij.util:{alias}")
        ok = getattr(v, "ref", None) == f"{VOIGT}:{cls}._"
        ctx.check(ok, f"cij.util.{alias} is {cls}._", model.where("cij.util:c_") if False else w, expected=f"{cls}._ (-> create)",
                  found=str(getattr(v, "ref", v)), explanation=f"the shorthand {alias} is not the canonicalising constructor", key=f"alias.{alias}")


def mk(ev, cls, *args):
    c = ClsV(f"{VOIGT}:{cls}")
    f = ev.get_attr(c, "_")
    return ev.call(f, list(args), {})


def ident(o):
    """canonical identity of a key object as produced by the code: ((i.i,i.j),(j.i,j.j))"""
    return hkey(o)


def r_quotient(ctx, model):
    ev = Ev(model, ctx=ctx)
    I = sp.Integer
    w = model.where(f"{VOIGT}:ModulusRepresentation.create")
    classes = {}
    bad = []
    n = 0
    r3 = (1, 2, 3)
    objs = {}
    for t in itertools.product(r3, repeat=4):
        n += 1
        try:
            o = mk(ev, "ModulusRepresentation", *[I(x) for x in t])
        except RaisedV as e:
            bad.append(f"{t} raises {e.exc_name}")
            continue
        idn = ident(o)
        want = canon_ref(*t)
        if idn != want:
            bad.append(f"{t} -> {idn} (reference class {want})")
        classes.setdefault(idn, []).append(t)
        objs[idn] = o
        # spellings: string and integer of the four digits
        for sp_ in ("".join(map(str, t)), I(int("".join(map(str, t))))):
            n += 1
            try:
                o2 = mk(ev, "ModulusRepresentation", sp_)
                if ident(o2) != idn:
                    bad.append(f"spelling {sp_!r} -> {ident(o2)} != {idn}")
            except RaisedV as e:
                bad.append(f"spelling {sp_!r} raises {e.exc_name}")
    ctx.check(not bad, "81 standard tuples (+ string/integer spellings) canonicalise to the reference classes", w,
              expected="class representative under minor/major symmetry", found="; ".join(bad[:6]) or f"{n} spellings as required",
              explanation="a four-index spelling is mapped to a key that is not the canonical representative of its symmetry class",
              key="quotient.standard")
    ctx.check(len(classes) == 21, "exactly 21 classes", w, expected="21", found=str(len(classes)),
              explanation="the 81 tuples do not fall into 21 canonical keys", key="quotient.count")
    # Voigt pairs
    bad = []
    for a, b in itertools.product(range(1, 7), repeat=2):
        want = tuple(sorted((V2S[a], V2S[b]), key=lambda s: {v: k for k, v in V2S.items()}[s]))
        for sp_ in ((I(a), I(b)), (f"{a}{b}",), (I(10 * a + b),)):
            n += 1
            try:
                o = mk(ev, "ModulusRepresentation", *sp_)
                if ident(o) != want:
                    bad.append(f"{sp_} -> {ident(o)} (want {want})")
            except RaisedV as e:
                bad.append(f"{sp_} raises {e.exc_name}")
    ctx.check(not bad, "36 Voigt pairs (+ string/integer spellings) agree with the standard spellings", model.where(f"{VOIGT}:ModulusRepresentation.from_voigt"),
              expected="same canonical key as the standard spelling", found="; ".join(bad[:6]) or "as required",
              explanation="a Voigt spelling and the standard spelling of one component give different keys", key="quotient.voigt")
    # views, multiplicity, classification
    bad_v, bad_m, kinds = [], [], {"LONGITUDINAL": 0, "OFF_DIAGONAL": 0, "SHEAR": 0}
    total = 0
    for idn, o in objs.items():
        v = hkey(ev.get_attr(o, "voigt"))
        s = hkey(ev.get_attr(o, "standard"))
        s2v = {vv: k for k, vv in V2S.items()}
        if v != (s2v[idn[0]], s2v[idn[1]]) or s != (*idn[0], *idn[1]):
            bad_v.append(f"{idn}: voigt {v} standard {s}")
        if hkey(ev.get_attr(o, "v")) != v or hkey(ev.get_attr(o, "s")) != s:
            bad_v.append(f"{idn}: short views differ")
        for back in (mk(ev, "ModulusRepresentation", *[I(x) for x in v]), mk(ev, "ModulusRepresentation", *[I(x) for x in s])):
            if ident(back) != idn:
                bad_v.append(f"{idn}: round trip gives {ident(back)}")
        m = ev.get_attr(o, "multiplicity")
        total += int(m)
        if int(m) != len(classes[idn]):
            bad_m.append(f"{idn}: multiplicity {m}, class size {len(classes[idn])}")
        flags = {nm: ev.get_attr(o, nm) for nm in ("is_longitudinal", "is_off_diagonal", "is_shear")}
        ct = ev.get_attr(o, "calc_type")
        want_kind = "SHEAR" if (v[0] > 3 or v[1] > 3) else ("LONGITUDINAL" if v[0] == v[1] else "OFF_DIAGONAL")
        truth = {"is_longitudinal": want_kind == "LONGITUDINAL", "is_off_diagonal": want_kind == "OFF_DIAGONAL", "is_shear": want_kind == "SHEAR"}
        if {k: bool(x) for k, x in flags.items()} != truth or not isinstance(ct, EnumV) or ct.name != want_kind:
            bad_m.append(f"{idn}: flags {flags} calc_type {ct} (want {want_kind})")
        if isinstance(ct, EnumV) and ct.name in kinds:
            kinds[ct.name] += 1
    ctx.check(not bad_v, "voigt/standard views and round trips", model.where(f"{VOIGT}:ModulusRepresentation.voigt"), expected="views of the canonical key; create(*view) returns the key",
              found="; ".join(bad_v[:5]) or "21 keys as required", explanation="the Voigt or standard view of a key is wrong or does not round-trip", key="views")
    ctx.check(not bad_m and total == 81 and kinds == {"LONGITUDINAL": 3, "OFF_DIAGONAL": 3, "SHEAR": 15},
              "multiplicity = class size (sum 81); classification 3/3/15", model.where(f"{VOIGT}:ModulusRepresentation.multiplicity"),
              expected="multiplicities sum to 81; 3 longitudinal, 3 off-diagonal, 15 shear", found="; ".join(bad_m[:5]) or f"sum {total}, {kinds}",
              explanation="multiplicity or the longitudinal/off-diagonal/shear classification of a key is wrong", key="multiplicity")
    ctx.extra["spellings_enumerated"] = n
    ctx.exhaustive = True


def r_strain(ctx, model):
    ev = Ev(model, ctx=ctx)
    I = sp.Integer
    bad = []
    s2v = {v: k for k, v in V2S.items()}
    for i, j in itertools.product((1, 2, 3), repeat=2):
        want = tuple(sorted((i, j)))
        for sp_ in ((I(i), I(j)), (f"{i}{j}",), (I(10 * i + j),)):
            try:
                o = mk(ev, "StrainRepresentation", *sp_)
                if hkey(o) != want or int(ev.get_attr(o, "voigt")) != s2v[want] or hkey(ev.get_attr(o, "standard")) != want:
                    bad.append(f"{sp_} -> {hkey(o)}")
            except RaisedV as e:
                bad.append(f"{sp_} raises {e.exc_name}")
    for v in range(1, 7):
        try:
            o = mk(ev, "StrainRepresentation", I(v))
            if hkey(o) != V2S[v]:
                bad.append(f"voigt {v} -> {hkey(o)}")
        except RaisedV as e:
            bad.append(f"voigt {v} raises {e.exc_name}")
    ctx.check(not bad, "strain indices: 9 standard pairs, 6 Voigt indices, spellings", model.where(f"{VOIGT}:StrainRepresentation.create"),
              expected="sorted pair; Voigt index per T-IDX", found="; ".join(bad[:6]) or "as required",
              explanation="a strain index spelling is not canonicalised per T-IDX", key="strain")
    # rejections
    bad = []
    cases = [("StrainRepresentation", (I(0),)), ("StrainRepresentation", (I(7),)), ("StrainRepresentation", (I(1), I(4))),
             ("StrainRepresentation", (I(0), I(1))), ("StrainRepresentation", ("14",)), ("StrainRepresentation", (I(44),)),
             ("ModulusRepresentation", (I(0), I(1))), ("ModulusRepresentation", (I(7), I(1))), ("ModulusRepresentation", (I(1), I(7))),
             ("ModulusRepresentation", (I(1), I(1), I(1), I(4))), ("ModulusRepresentation", (I(0), I(1), I(1), I(1))),
             ("ModulusRepresentation", ("17",)), ("ModulusRepresentation", (I(70),)), ("ModulusRepresentation", ("1114",)),
             ("ModulusRepresentation", (I(1), I(2), I(3))), ("ModulusRepresentation", ()),
             # a zero in the second place (falsy, but not absent)
             ("StrainRepresentation", (I(1), I(0))), ("StrainRepresentation", (I(4), I(0))), ("StrainRepresentation", ("10",)), ("StrainRepresentation", (I(30),)),
             ("ModulusRepresentation", (I(1), I(0))), ("ModulusRepresentation", ("10",)), ("ModulusRepresentation", (I(1), I(1), I(1), I(0))), ("ModulusRepresentation", ("1110",)),
             # not an index at all (no branch of the dispatch applies): refused, not answered with None
             ("StrainRepresentation", (None,)), ("StrainRepresentation", (sp.Rational(3, 2),))]
    for cls, args in cases:
        try:
            o = mk(ev, cls, *args)
            bad.append(f"{cls}{args} accepted -> {hkey(o) if o is not None else None}")
        except RaisedV:
            pass
        except AnalysisError as e:
            if "not in constant dict" in e.reason or "out of range" in e.reason or "arity" in e.reason:
                pass  # KeyError / IndexError / TypeError at run time: rejected as well
            else:
                raise
    ctx.check(not bad, f"{len(cases)} out-of-range spellings are rejected", model.where(f"{VOIGT}:StrainRepresentation.from_standard"),
              expected="an exception", found="; ".join(bad[:6]) or "all rejected",
              explanation="an out-of-range index is accepted and silently mapped to some key", key="rejection")
    # the boxes of neighbours, exhaustively: a spelling is accepted exactly when every index it holds is in range for the notation its arity selects
    # (two indices of a modulus are Voigt indices 1..6 - 11 is not a spelling of Voigt 1 there; four are standard indices 1..3; an integer / string is its digits)
    def digits_ok(text, hi):
        return text.isdigit() and all(1 <= int(c) <= hi for c in text)
    box = []
    for a_, b_ in itertools.product(range(-2, 41), repeat=2):
        box.append(("ModulusRepresentation", (I(a_), I(b_)), 1 <= a_ <= 6 and 1 <= b_ <= 6))
    for t_ in itertools.product(range(0, 5), repeat=4):
        box.append(("ModulusRepresentation", tuple(I(x) for x in t_), all(1 <= x <= 3 for x in t_)))
    for v_ in list(range(-2, 130)) + [1000, 1110, 1111, 1114, 1234, 3333, 3334, 4111, 11111, 111]:
        text = str(v_)
        ok = (len(text) == 2 and digits_ok(text, 6)) or (len(text) == 4 and digits_ok(text, 3))
        box.append(("ModulusRepresentation", (I(v_),), ok))
        if v_ >= 0:
            box.append(("ModulusRepresentation", (text,), ok))
    for a_, b_ in itertools.product(range(-1, 9), repeat=2):
        box.append(("StrainRepresentation", (I(a_), I(b_)), 1 <= a_ <= 3 and 1 <= b_ <= 3))
    for v_ in range(-2, 130):
        text = str(v_)
        ok = (1 <= v_ <= 6) or (len(text) == 2 and digits_ok(text, 3))
        box.append(("StrainRepresentation", (I(v_),), ok))
    bad2 = []
    for cls, args, ok in box:
        try:
            o = mk(ev, cls, *args)
            accepted = o is not None
        except RaisedV:
            accepted = False
        except AnalysisError as e:
            if "not in constant dict" in e.reason or "out of range" in e.reason or "arity" in e.reason or "unpack" in e.reason or "positional argument" in e.reason:
                accepted = False
            else:
                raise
        if accepted != ok:
            shown = ", ".join(repr(x) if isinstance(x, str) else str(x) for x in args)
            bad2.append(f"{cls}({shown}) " + (f"accepted -> {hkey(o)}" if accepted else "rejected"))
    ctx.check(not bad2 and len(box) > 2500, f"{len(box)} spellings in the boxes around the legal ranges: accepted exactly when every index is in range", model.where(f"{VOIGT}:ModulusRepresentation.from_voigt"),
              expected="Voigt pairs 1..6 x 1..6, standard tuples 1..3, integers / strings by their digits; everything else raises", found="; ".join(bad2[:6]) or "as required",
              explanation="an out-of-range index is accepted and silently mapped to some key (or a legal spelling is refused)", key="rejection.box")


RULES = [
    ("R10.1,4", "lookup tables equal T-IDX and its inverse; NamedTuple default equality/hash; c_/e_ aliases", r_tables),
    ("R10.2-3,5-7", "constructors, views, multiplicity, classification constant-folded over all 81 tuples / 36 pairs / spellings", r_quotient),
    ("R10.2b", "strain representation spellings and rejection of out-of-range indices", r_strain),
]
