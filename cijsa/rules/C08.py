"""C08 — symmetry relations equal the Laue-class invariants; fill returns the invariant."""
from __future__ import annotations

import ast
import itertools
import json
import re

import sympy as sp

from ..anf import is_zero

from ..facts import V2S, voigt_canon
from ..fillmodel import (run_fill, Scenario, parse_relations, relation_matrix, SYMS21, FILL)
from ..model import dotted_name, src
from ..report import AnalysisError, REPO, Where
from ..sym import ArrV, is_sym

LEVEL = "proof"
TECHNIQUE = "static analysis: exact linear algebra (sympy rank over Q(sqrt 3)) on the packaged relation files vs Laue-group invariance equations; partial evaluation of fill_cij"
TRUSTED_BASE = ["Python ast / own recursive-descent parser of the relation files", "sympy exact Matrix.rank over Q(sqrt(3))",
                "T-LAUE: generators of the nine Laue classes in the standard setting (from the property statement)",
                "T-IDX Voigt map", "the constant folder of cijsa.sym for fill_cij's parse block"]
EXPLANATION = (
    "Proof of the first sentence of C08 on the packaged data: for each of the nine systems the relation file is parsed "
    "into a linear system R over c11..c66 and the invariance equations C = RRRR.C of the Laue-class generators into a "
    "system I; rank(R) = rank(I) = rank([R;I]) is decided exactly (both inclusions of the 21-dimensional subspaces). "
    "Structural obligations on the code (necessary conditions of the second sentence): fill_cij, partially evaluated on "
    "the packaged files, hands numpy.linalg.lstsq the matrix [selector rows of supplied columns; relations] whose "
    "relation block spans exactly the reference row space, with one symbol order for selectors, relation columns and "
    "write-back; every solved symbol is written back; columns are omitted only by the allclose rule; system names agree "
    "between schema, data files, T-LAUE and help texts; apply_symetry_on_elast_data round-trips keys.")
NOT_DECIDED = ("that numpy.linalg.lstsq returns the invariant tensor to rounding and leaves supplied values unchanged "
               "numerically (numerical linear algebra).")
ASSUMPTIONS = ["inversion acts trivially on a rank-4 tensor, so proper rotations generate the Laue-class constraints",
               "T-LIB: numpy.linalg.lstsq(a, b) solves a x = b in the least-squares sense and reports rank and residuals"]

S3 = sp.sqrt(3)
ROT = {
    "C2x": sp.diag(1, -1, -1), "C2y": sp.diag(-1, 1, -1), "C2z": sp.diag(-1, -1, 1),
    "C4z": sp.Matrix([[0, -1, 0], [1, 0, 0], [0, 0, 1]]),
    "C3z": sp.Matrix([[-sp.Rational(1, 2), -S3 / 2, 0], [S3 / 2, -sp.Rational(1, 2), 0], [0, 0, 1]]),
    "C6z": sp.Matrix([[sp.Rational(1, 2), -S3 / 2, 0], [S3 / 2, sp.Rational(1, 2), 0], [0, 0, 1]]),
    "C3_111": sp.Matrix([[0, 0, 1], [1, 0, 0], [0, 1, 0]]),
}
LAUE = {
    "triclinic": [], "monoclinic": ["C2y"], "orthorhombic": ["C2x", "C2y", "C2z"], "tetragonal7": ["C4z"],
    "tetragonal6": ["C4z", "C2x"], "trigonal7": ["C3z"], "trigonal6": ["C3z", "C2x"], "hexagonal": ["C6z", "C2x"],
    "cubic": ["C4z", "C3_111"],
}
EXPECTED_DIM = {"triclinic": 21, "monoclinic": 13, "orthorhombic": 9, "tetragonal7": 7, "tetragonal6": 6, "trigonal7": 7,
                "trigonal6": 6, "hexagonal": 5, "cubic": 3}


def csym(i, j, k, l):
    return sp.Symbol("c" + voigt_canon(f"{i}{j}{k}{l}"))


def invariance_matrix(gens):
    syms = [sp.Symbol(s) for s in SYMS21]
    rows = []
    r3 = (1, 2, 3)
    for g in gens:
        R = ROT[g]
        for name in SYMS21:
            (i, j), (k, l) = V2S[int(name[1])], V2S[int(name[2])]
            e = -csym(i, j, k, l)
            for a, b, c, d in itertools.product(r3, repeat=4):
                coef = R[i - 1, a - 1] * R[j - 1, b - 1] * R[k - 1, c - 1] * R[l - 1, d - 1]
                if coef != 0:
                    e += coef * csym(a, b, c, d)
            e = sp.expand(e)
            if e != 0:
                rows.append([sp.nsimplify(e.coeff(s)) for s in syms])
    return sp.Matrix(rows) if rows else sp.zeros(0, 21)


def rank(m):
    if m.rows == 0:
        return 0
    return m.rank(simplify=True)


def relation_file(system):
    p = REPO / "cij" / "data" / "constraints" / system
    if not p.is_file():
        raise AnalysisError(f"anchor vanished: relation file {p}")
    return p.read_text()


def r_laue(ctx, model):
    for system, gens in LAUE.items():
        ctx.fn(f"cij/data/constraints/{system}")
        w = Where(f"cij/data/constraints/{system}", "", 0)
        R = relation_matrix(parse_relations(relation_file(system)))
        I = invariance_matrix(gens)
        rR, rI = rank(R), rank(I)
        rRI = rank(R.col_join(I)) if R.rows and I.rows else max(rR, rI)
        ctx.check(rR == rRI, f"{system}: invariant tensors satisfy the packaged relations (I => R)", w,
                  expected=f"rank([R;I]) = rank(I) = {rI}", found=f"rank(R)={rR} rank(I)={rI} rank([R;I])={rRI}",
                  explanation=f"{system}: the Laue-class invariance equations imply a constraint the file lacks, or the file "
                              f"imposes a relation that invariant tensors violate (wrong sign/factor/extra relation)",
                  key=f"{system}.I_implies_R" if rRI != rI else f"{system}.inclusion1")
        ctx.check(rI == rRI, f"{system}: tensors satisfying the relations are invariant (R => I)", w,
                  expected=f"rank([R;I]) = rank(R) = {rR}", found=f"rank(R)={rR} rank(I)={rI} rank([R;I])={rRI}",
                  explanation=f"{system}: the packaged relations are weaker than the Laue-class invariance (a relation is missing) "
                              f"or contradict it", key=f"{system}.inclusion2")
        ctx.check(21 - rR == EXPECTED_DIM[system], f"{system}: {EXPECTED_DIM[system]} independent constants", w,
                  expected=str(EXPECTED_DIM[system]), found=str(21 - rR),
                  explanation=f"{system}: the relation file leaves {21 - rR} independent components, the Laue class has "
                              f"{EXPECTED_DIM[system]}", key=f"{system}.dimension")
    ctx.exhaustive = True


def r_parse(ctx, model):
    """the relation block handed to lstsq spans the reference row space (9 systems)"""
    w = model.where(FILL)
    for system in LAUE:
        sc = Scenario(system=system, columns=SYMS21)
        res = run_fill(model, sc, ctx)
        Rref = relation_matrix(parse_relations(relation_file(system)))
        if system == "triclinic" or Rref.rows == 0:
            ok = res[0] == "ok" and dict(res[1].cols) == res[3]
            ctx.check(ok, f"{system}: no relations -> table returned unchanged", w, expected="input table", found=str(res[0]),
                      explanation="with an empty relation file the table must pass through", key=f"{system}.parse")
            continue
        if res[0] != "ok" or sc.lstsq is None:
            ctx.check(False, f"{system}: fill_cij evaluates to a solve", w, expected="a least-squares solve", found=f"{res[0]} {res[1]}",
                      explanation=f"fill_cij refuses or fails on a complete {system} table", key=f"{system}.parse")
            continue
        A, B = sc.lstsq
        n_sel = len(SYMS21)
        order = sc.lineq_syms
        perm = [order.index(s) for s in SYMS21] if sorted(order) == sorted(SYMS21) else None
        if perm is None or A.shape[1] != 21:
            raise AnalysisError(f"relation matrix columns are not the 21 symbols: {order}")
        Rcode = sp.Matrix([[A.get((r, perm[c])) for c in range(21)] for r in range(n_sel, A.shape[0])])
        rR, rC = rank(Rref), rank(Rcode)
        rJ = rank(Rref.col_join(Rcode))
        zero_rhs = all(B.rows[r] == 0 for r in range(n_sel, len(B.rows)))
        ctx.check(rR == rC == rJ and zero_rhs and len(B.rows) == A.shape[0], f"{system}: parsed relations span the reference row space", w,
                  expected=f"rank {rR}, homogeneous right-hand side", found=f"rank(code)={rC} rank(joint)={rJ} rhs zero={zero_rhs}",
                  explanation=f"fill_cij does not read the {system} relation file as chained equalities of affine expressions "
                              f"(first part minus each later part)", key=f"{system}.parse")
        ctx.check(sc.opened == [("packaged", f"constraints/{system}")], f"{system}: packaged relation file is the one opened", w,
                  expected=f"constraints/{system}", found=str(sc.opened), explanation="the relation file opened is not the packaged file of the requested system",
                  key=f"{system}.file")


def r_order(ctx, model):
    """one symbol order for selector rows, relation columns and write-back"""
    w = model.where(FILL)
    cols = ["V", "c44", "C12", "c11", "extra"]
    sc = Scenario(system="cubic", columns=cols)
    res = run_fill(model, sc, ctx)
    if res[0] != "ok" or sc.lstsq is None:
        raise AnalysisError(f"fill_cij does not evaluate on a sufficient cubic table: {res[0]} {res[1]}")
    A, B = sc.lstsq
    order = sc.lineq_syms
    supplied = [c for c in cols if re.fullmatch(r"c[1-6][1-6]", c.lower())]
    bad = []
    for r, name in enumerate(supplied):
        row = [A.get((r, c)) for c in range(A.shape[1])]
        ones = [c for c, v in enumerate(row) if v != 0]
        if len(ones) != 1 or row[ones[0]] != 1 or order[ones[0]] != name.lower() or B.rows[r] != sp.Symbol(f"COL_{name}", real=True):
            bad.append(f"row {r} ({name}): ones at {[order[c] for c in ones]}, data {B.rows[r]}")
    ctx.check(not bad and len(B.rows) == A.shape[0], "selector rows pair each supplied column with its own symbol", w,
              expected="row k: 1 at the column of lower(name_k), right-hand side = that column's data", found="; ".join(bad) or "as required",
              explanation="a supplied column is tied to the wrong unknown in the least-squares system", key="order.selector")
    out = res[1]
    bad = []
    for p, s in enumerate(order):
        tgt = next((c for c in out.cols if c.lower() == s), None)
        if tgt is None or out.cols[tgt] != sp.Symbol(f"X{p}", real=True):
            bad.append(f"{s} <- {out.cols.get(tgt) if tgt else 'missing'} (want X{p})")
    ctx.check(not bad and sorted(order) == sorted(SYMS21), "write-back pairs solution row p with symbol p (21 symbols)", w,
              expected="column of symbol p = solution row p", found="; ".join(bad[:6]) or "as required",
              explanation=("the solved components are written back through a labelled column whose row labels (0..n-1, made up by a constructor) are "
                           "aligned with the row labels of the caller's table: a table with any other index receives missing or permuted values")
              if any("ALIGNED_ON_FRESH_ROW_LABELS" in b for b in bad) else
              "the solved components are written back under the wrong names (symbol order differs between the "
              "system matrix and the write-back)", key="order.writeback")
    # the same table under every combination of the two flags (a path that restores supplied numbers when residuals are ignored, say, must restore each under its own name)
    for flags in ({"ignore_residuals": True}, {"ignore_rank": True}, {"ignore_residuals": True, "ignore_rank": True}):
        sc2 = Scenario(system="cubic", columns=cols, resid=1000 if flags.get("ignore_residuals") else 0, kwargs=dict(flags))
        res2 = run_fill(model, sc2, ctx)
        bad2 = []
        if res2[0] != "ok":
            bad2.append(f"refused with {res2[1]}")
        else:
            order2 = sc2.lineq_syms
            for p2, s2 in enumerate(order2):
                tgt = next((c for c in res2[1].cols if c.lower() == s2), None)
                own = [sp.Symbol(f"X{p2}", real=True)] + ([sp.Symbol(f"COL_{tgt}", real=True)] if tgt in cols else [])
                if tgt is not None and res2[1].cols[tgt] not in own:
                    bad2.append(f"{s2} <- {res2[1].cols[tgt]}")
        ctx.check(not bad2, f"with {flags}: every component holds its own solved (or its own supplied) values", w, expected="column of symbol p = solution row p, or the column as it was supplied",
                  found="; ".join(bad2[:4]) or "as required", explanation="with this combination of flags a component receives the values of ANOTHER component (supplied numbers restored by position in "
                  "canonical symbol order instead of by the symbol each supplied column belongs to: wrong whenever the table's columns are not in canonical order)", key=f"order.flags.{'+'.join(sorted(flags))}")
    keep = [c for c in ("V", "extra") if out.cols.get(c) != sp.Symbol(f"COL_{c}", real=True)]
    ctx.check(not keep and list(out.cols)[:len(cols)] == cols, "non-modulus columns pass through; existing names are reused", w,
              expected="V, extra unchanged; C12 reused (no duplicate c12)", found=f"changed {keep}; columns {list(out.cols)[:8]}",
              explanation="a non-modulus column is modified, or an upper-case column is duplicated instead of overwritten",
              key="order.passthrough")


def r_drop(ctx, model):
    w = model.where(FILL)
    # X index of c14.. vanish: those columns are omitted, nothing else
    sc0 = Scenario(system="cubic", columns=["c11", "c12", "c44"])
    run_fill(model, sc0, ctx)
    order = sc0.lineq_syms
    zero_syms = {f"X{order.index(s)}" for s in ("c14", "c15", "c16", "c45")}
    sc = Scenario(system="cubic", columns=["c11", "c12", "c44"], zero=zero_syms)
    res = run_fill(model, sc, ctx)
    if res[0] != "ok":
        raise AnalysisError(f"fill_cij refuses a sufficient cubic table: {res[1]}")
    got = set(res[1].cols)
    want = set(SYMS21) - {"c14", "c15", "c16", "c45"}
    ctx.check(got == want, "vanishing components are omitted, all others are present", w, expected=str(sorted(want)), found=str(sorted(got)),
              explanation="a component is omitted although it does not vanish, or a vanishing component is kept", key="drop.rule")
    # a component that vanishes at some volumes only is not a vanishing component
    sc = Scenario(system="cubic", columns=["c11", "c12", "c44"], zero=zero_syms)
    sc.zero_some = {f"X{order.index(s)}" for s in ("c24", "c56")}
    res = run_fill(model, sc, ctx)
    got = set(res[1].cols) if res[0] == "ok" else set()
    ctx.check(not sc.bad_vanish_tests, "'vanishing' means |value| <= drop tolerance at every volume", w, expected="allclose(col, 0, atol) or an equivalent spelling",
              found="; ".join(sorted(set(sc.bad_vanish_tests))[:3]) or "canonical",
              explanation="the omission test is not the magnitude of the component at every volume (e.g. |max(x)|): a symmetry-generated component that is "
                          "negative, or zero at a single volume, disappears from the filled table", key="drop.form")
    ctx.check(got == want, "a component that is zero at one volume but not at all is kept", w, expected=str(sorted(want)), found=str(sorted(got)),
              explanation="a component is omitted as soon as it vanishes at a single volume: the filled table no longer holds the invariant tensor at every volume",
              key="drop.partial")
    # a SUPPLIED component that vanishes at every volume is omitted as well, however its column is spelt (c15 / C15 / C_15-style labels are matched without case)
    for label in ("c15", "C15"):
        cols_ = ["c11", "c12", "c44", label]
        sc1 = Scenario(system="cubic", columns=cols_)
        run_fill(model, sc1, ctx)
        zs = {f"X{sc1.lineq_syms.index(s_)}" for s_ in ("c14", "c15", "c16", "c45")} | {f"COL_{label}"}
        sc = Scenario(system="cubic", columns=cols_, zero=zs)
        res = run_fill(model, sc, ctx)
        got = {c_.lower() for c_ in res[1].cols} if res[0] == "ok" else set()
        ctx.check(res[0] == "ok" and got == want, f"a supplied column {label!r} that vanishes at every volume is omitted", w, expected=str(sorted(want)),
                  found=str(sorted(res[1].cols)) if res[0] == "ok" else str(res[1]),
                  explanation=f"a supplied component labelled {label!r} that is below the drop tolerance at every volume stays in the filled table (or another one is lost): "
                              f"the outcome depends on the letter case of the column labels", key=f"drop.supplied.{label}")
    sc = Scenario(system="cubic", columns=["c11", "c12", "c44"])
    res = run_fill(model, sc, ctx)
    ctx.check(res[0] == "ok" and set(res[1].cols) == set(SYMS21), "every solved symbol is written back", w, expected="21 columns",
              found=str(sorted(res[1].cols)) if res[0] == "ok" else str(res[1]), explanation="a dependent component is not generated", key="drop.all21")


def r_names(ctx, model):
    files = sorted(p.name for p in (REPO / "cij" / "data" / "constraints").iterdir() if p.is_file())
    schema = json.loads((REPO / "cij" / "data" / "schema" / "config.schema.json").read_text())
    try:
        enum = schema["definitions"]["elast_settings"]["properties"]["symmetry"]["properties"]["system"]["enum"]
    except KeyError:
        raise AnalysisError("schema: symmetry.system.enum not found")
    ctx.fn("cij/data/schema/config.schema.json", "cij/data/constraints/*")
    w = Where("cij/data/schema/config.schema.json", "symmetry.system.enum", 0)
    ctx.check(sorted(enum) == files == sorted(LAUE), "system names: schema enum = relation files = Laue classes", w,
              expected=str(sorted(LAUE)), found=f"enum {sorted(enum)}; files {files}",
              explanation="a crystal system is accepted by the schema without a relation file (or vice versa)", key="names.schema_files")
    texts = {"fill_cij docstring": ast.get_docstring(model.func(FILL)) or ""}
    for ref in ("cij.cli.fill:main", "cij.cli.static:main"):
        f = model.func(ref)
        for d in f.decorator_list:
            if isinstance(d, ast.Call):
                for k in d.keywords:
                    if k.arg == "help" and isinstance(k.value, ast.Constant) and "crystal system" in str(k.value.value) and "one of" in str(k.value.value):
                        texts[f"{ref} --system help"] = k.value.value
    for where, t in texts.items():
        m = re.search(r"one of:?\s*(.*)", t.replace("\n", " "))
        names = set(re.findall(r"[a-z]+[67]?", m.group(1).split(". ")[0].replace("``", ""))) & (set(LAUE) | {"tetragonal", "trigonal"}) if m else set()
        ctx.check(names == set(LAUE), f"{where} lists the nine systems", Where("cij", where, 0), expected=str(sorted(LAUE)), found=str(sorted(names)),
                  explanation="documented list of crystal systems differs from the supported ones", key=f"names.{where}")


def r_apply(ctx, model):
    """apply_symetry_on_elast_data evaluated on a symbolic static table: keys -> cIJ names ->
    fill_cij(df, **symmetry) -> canonical keys, every volume entry rebuilt from its own row"""
    from ..dfmodel import DFV, SeqV, DF_LIB, df_wrap
    from ..facts import KeyObj, c_intrinsic
    from ..sym import Ev, Obj, DictV, LibV, Tup
    ref = "cij.io.traditional.elast_dat:apply_symetry_on_elast_data"
    f = model.func(ref)
    w = model.where(ref, f)
    supplied = ["c11", "c12", "c44"]
    elem = Obj("cij.io.traditional.elast_dat:ElastVolumeData", {
        "volume": sp.Symbol("VOLS2", positive=True),
        "static_elastic_modulus": DictV({KeyObj(k): sp.Symbol(f"CST_{k[1:]}", real=True) for k in supplied})})
    elem.attrs["__fields__"] = ["volume", "static_elastic_modulus"]
    seq = SeqV(elem)
    data = Obj("cij.io.traditional.elast_dat:ElastData", {"volumes": seq, "lattice_parmeters": Tup([], "list")})
    cap = {}

    def fill(ev, a, k):
        cap["args"], cap["kwargs"] = a, dict(k)
        df = a[0]
        if not isinstance(df, DFV):
            raise AnalysisError("fill_cij is not applied to a table")
        cap["cols_in"] = dict(df.cols)
        cap["nrows"] = df.nrows
        cap["fills"] = cap.get("fills", 0) + 1
        out = DFV(df.nrows, {kk: sp.Symbol(f"FILLED_{kk}", real=True) for kk in SYMS21 if kk not in ("c14", "c15")})
        if getattr(df, "row_perm", None):
            out.row_perm = list(df.row_perm)          # fill_cij treats the rows independently: they come back in the order they went in
        return out

    intr = {"cij.util.fill:fill_cij": fill, "cij.c_": c_intrinsic}
    for kname, fn in DF_LIB.items():
        intr[kname] = df_wrap(fn)
        intr["builtins." + kname] = intr[kname]
    ev = Ev(model, {("global", "cij.util:c_"): LibV("cij.c_")}, intr, ctx=ctx)
    symmetry = DictV({"system": "cubic", "ignore_rank": True})
    ev.call_def(f, model.mods["cij.io.traditional.elast_dat"], ref, [data, symmetry], {})
    ctx.check(dict(symmetry.d) == {"system": "cubic", "ignore_rank": True}, "the caller's symmetry settings are left as they were", w, expected="{'system': 'cubic', 'ignore_rank': True}",
              found=str({k_: str(v_) for k_, v_ in symmetry.d.items()}), explanation="apply_symetry_on_elast_data changes the settings dictionary it was handed (an entry popped or overwritten): the next table "
              "filled with the same settings in this process is filled with other relations, or with none", key="apply.settings-untouched")
    # the call is bound against fill_cij's own signature: however the settings are passed (keywords, positions, defaults filled in by hand),
    # every parameter must receive the configured value, or the default of fill_cij where the settings say nothing
    ff = model.func("cij.util.fill:fill_cij")
    pnames = [a.arg for a in ff.args.posonlyargs + ff.args.args]
    evd = Ev(model, {}, {}, ctx=ctx)
    defaults = {n_: evd.eval(d_, {}, model.mods["cij.util.fill"]) for n_, d_ in zip(reversed(pnames), reversed(ff.args.defaults))}
    want_eff = dict(defaults)
    want_eff.update({"system": "cubic", "ignore_rank": True})
    eff, ok = dict(defaults), "args" in cap and len(cap["args"]) >= 1 and len(cap["args"]) <= len(pnames)
    if ok:
        for n_, v_ in zip(pnames[1:], cap["args"][1:]):
            eff[n_] = v_
        for n_, v_ in cap["kwargs"].items():
            if n_ not in pnames or n_ in pnames[1:len(cap["args"])]:
                ok = False
            eff[n_] = v_
    same = ok and set(eff) == set(want_eff) and all((is_zero(sp.sympify(eff[n_]) - sp.sympify(want_eff[n_])) if isinstance(eff[n_], sp.Basic) and not isinstance(eff[n_], sp.logic.boolalg.BooleanAtom)
                                                     and isinstance(want_eff[n_], sp.Basic) and not isinstance(want_eff[n_], sp.logic.boolalg.BooleanAtom) else eff[n_] == want_eff[n_]) for n_ in want_eff)
    ctx.check(same, "fill_cij(table, <the symmetry settings>): every parameter of fill_cij receives its configured value (or fill_cij's default)", w,
              expected=f"fill_cij(df, system='cubic', ignore_rank=True) - effective {({k_: str(v_) for k_, v_ in want_eff.items()})}",
              found=f"{len(cap.get('args', []))} positional, kwargs {sorted(cap.get('kwargs', {}))}: effective {({k_: str(v_) for k_, v_ in eff.items()})}",
              explanation="the symmetry settings do not reach fill_cij's parameters of the same name (a setting bound to another parameter, dropped, or replaced by a value that is not fill_cij's default)", key="apply.fill")
    whole = cap.get("nrows") == sp.Symbol("NSEQ", positive=True, integer=True) and cap.get("fills") == 1
    ctx.check(whole, "fill_cij is applied once, to the table of all volumes (one row per volume)", w, expected="one call with a table of NSEQ rows",
              found=f"{cap.get('fills')} call(s) per sweep with a table of {cap.get('nrows')} row(s)",
              explanation="the symmetry filling is applied to one volume's row at a time: 'omitted when below the drop tolerance at ALL volumes' and the consistency "
                          "check become per-volume statements, so volumes can end up with different component sets", key="apply.whole-table")
    want_in = {k: sp.Symbol(f"CST_{k[1:]}", real=True) for k in supplied}
    ctx.check(cap.get("cols_in") == want_in, "table columns are 'cIJ' names of the keys with their values", w, expected=str(want_in),
              found=str(cap.get("cols_in")), explanation="static moduli are not tabulated under the Voigt names of their keys", key="apply.names")
    new = seq.elem
    okv = isinstance(new, Obj) and new.attrs.get("volume") == sp.Symbol("VOLS2", positive=True) and getattr(seq, "rewritten", 0) == 1
    d = new.attrs.get("static_elastic_modulus") if isinstance(new, Obj) else None
    got = {k.name: v for k, v in d.d.items()} if isinstance(d, DictV) else None
    want = {kk: sp.Symbol(f"FILLED_{kk}", real=True) for kk in SYMS21 if kk not in ("c14", "c15")}
    ctx.check(okv and got == want, "every volume entry rebuilt from its own row of the filled table (canonical keys, volume kept)", w,
              expected="volumes[i] = (volumes[i].volume, {c_(name[1:]): filled[i][name]})", found=f"volume kept: {okv}; keys {sorted(got) if got else got}",
              explanation="the filled components are not written back to the matching volume entries under canonical keys", key="apply.rows")


RULES = [
    ("R08.1", "relation files = Laue-class invariant subspaces, both inclusions, exact rank (9 systems)", r_laue),
    ("R08.2", "fill_cij's parse of each packaged file spans the reference row space; right file opened", r_parse),
    ("R08.3", "one symbol order for selector rows, relation columns and write-back", r_order),
    ("R08.4", "system names agree: schema enum, relation files, T-LAUE, help texts", r_names),
    ("R08.5", "all solved symbols written back; omitted only when vanishing", r_drop),
    ("R08.6", "apply_symetry_on_elast_data: key/name round trip, per-volume rebuild", r_apply),
]
