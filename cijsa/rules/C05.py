"""C05 — total modulus = interpolated static table + phonon part, end to end from files."""
from __future__ import annotations

import ast

import sympy as sp

from .. import units as U
from ..anf import is_zero, short
from ..dfmodel import SeqV, DF_LIB, SymRange, LoopIdx, df_wrap
from ..facts import (physics_seeds, KeyObj, KEYS21, CALC, V, T, c_intrinsic, interpolate_modes_roles)
from ..libsum import lib_func, return_arity
from ..model import dotted_name, src, body_wo_doc, is_logging_stmt
from ..opaque import linear, F
from ..report import AnalysisError
from ..sym import (Ev, Obj, Tup, DictV, ArrV, LibV, Opaque, as_sym, is_sym, indexed, is_indexed, Indexed, BoundLib)
from .C18 import strain_of, strain_intr, plsf_intr, fit_abscissae

FULL = "cij.core.full_modulus:FullThermalElasticModulus"
TASKLIST = "cij.core.tasks:PhononContributionTaskList"
P = dict(positive=True)
VOLS2, VOLS, ENER, LA, LB, LC = sp.symbols("VOLS2 VOLS ENER LA LB LC", **P)
AU = U.Ry / U.bohr ** 3
GPA = U.UNIT_TABLE["GPa"]

LEVEL = "other"
TECHNIQUE = "static analysis: folding of FullThermalElasticModulus / Calculator steps to normal forms (quantity calculus, opaque fit atoms), typestate of Calculator.__init__, library arity"
EXPLANATION = (
    "Static analysis decides: modulus_adiabatic/isothermal[key] = static(key) broadcast over T + the like-named phonon "
    "store; static(key) = polyfit of V*c(V) (table GPa -> Ry/bohr^3) in Eulerian strain with degree order+1 = 3, evaluated "
    "at the grid strain, divided by the grid volume, both strains referred to the same first table volume; the phonon "
    "request (axial strains, keys) carries no static-modulus value and the static part no temperature; axial strains are "
    "constant thirds without a lattice block and otherwise column-wise difference-over-sum of the fitted, edge-padded axis "
    "lengths, row-normalised; static pressure = -grad(fit of input energies)/grad(V); Calculator.__init__ assigns every "
    "attribute before a step reads it and fills symmetry before modulus_keys is first cached; qha call arities.")
NOT_DECIDED = "equality with an independently computed reference; least-squares and QHA numerics; 'inside the computed range'."
ASSUMPTIONS = ["static table moduli are in GPa, volumes in bohr^3, energies in Ry (documented formats)",
               "T-LIB: numpy.polyfit/polyval least-squares polynomial; qha calculate_eulerian_strain read from the installed source"]


class TaskListStub(Obj):
    pass


def setup(ctx, model, lattice=True, keys=None):
    seeds, intr, calc = physics_seeds(model, pstat_atom=False)
    keys = keys or ["c11", "c12", "c44", "c14"]
    ks = [KeyObj(k) for k in keys]
    ev_elem = Obj("cij.io.traditional.elast_dat:ElastVolumeData", {
        "volume": VOLS2 / U.bohr ** 3,
        "static_elastic_modulus": DictV({k: sp.Symbol(f"CST_{k.name[1:]}", real=True) / GPA for k in ks})})
    lat = SeqV(Tup([LA / U.bohr, LB / U.bohr, LC / U.bohr])) if lattice else Tup([], "list")
    elast = calc.attrs["elast_data"]
    elast.attrs["volumes"] = SeqV(ev_elem)
    elast.attrs["lattice_parmeters"] = lat
    vol = Obj("cij.io.traditional.qha_input:VolumeData", {"volume": VOLS / U.bohr ** 3, "energy": ENER / U.Ry})
    calc.attrs["qha_input"] = Obj("cij.io.traditional.qha_input:QHAInputData", {"volumes": SeqV(vol)})
    cap = {"calls": []}
    stub = TaskListStub(TASKLIST, label="tasklist")

    def new_tasklist(ev, a, k):
        cap["ctor"] = a
        return stub

    def resolve(ev, a, k):
        cap["calls"].append("resolve")
        cap["resolve"] = a[1:]
        return None

    def calculate(ev, a, k):
        cap["calls"].append("calculate")
        return None

    def res(tag):
        def f(ev, a, k):
            cap["calls"].append(f"get_{tag}")
            return DictV({kk: sp.Symbol(f"PH{tag}_{kk.name[1:]}", real=True) for kk in ks})
        return f

    def polyfit(ev, a, k):
        b = dict(zip(["x", "y", "deg"], a))
        b.update(k)
        return PolyFit(as_sym(b["x"]), as_sym(b["y"]), as_sym(b["deg"]))

    def polyval(ev, a, k):
        p, x = a[0], a[1]
        if not isinstance(p, PolyFit):
            raise AnalysisError("numpy.polyval of something that is not a numpy.polyfit result")
        px, xn = fit_abscissae(p.x, as_sym(x))
        if p.flaw:
            return linear("POLYFIT_" + p.flaw, [px, p.y, p.deg, xn], 1)
        return linear("POLYFIT", [px, p.y, p.deg, xn], 1)

    def vander(ev, a, k):
        b = dict(zip(["x", "N", "increasing"], a))
        b.update(k)
        if "N" not in b or not isinstance(b.get("increasing", False), bool):
            raise AnalysisError("numpy.vander without a column count")
        return VanderV(as_sym(b["x"]), as_sym(b["N"]), b.get("increasing", False))

    def lstsq(ev, a, k):
        b = dict(zip(["a", "b", "rcond"], a))
        b.update(k)
        if not isinstance(b.get("a"), VanderV):
            raise AnalysisError("numpy.linalg.lstsq on something that is not a Vandermonde design matrix")
        rc = b.get("rcond")
        flaw = None
        if rc is not None:
            # numpy.polyfit solves the same least-squares problem (on scaled columns) with the cut-off len(x) * eps: a cut-off of that size
            # never drops a direction of a physical table; a larger one silently truncates the fit for narrow volume ranges
            r_ = as_sym(rc)
            r_ = r_.subs({s_: 1000 for s_ in r_.free_symbols if s_.is_integer})
            if not r_.is_number:
                raise AnalysisError("numpy.linalg.lstsq with a cut-off that is not a constant")
            if r_ > sp.Rational(1, 10 ** 10):
                flaw = "TRUNCATED"
        if b["a"].increasing:
            flaw = (flaw + "_" if flaw else "") + "INCREASING_POWERS"
        pf = PolyFit(b["a"].x, as_sym(b["b"]), b["a"].ncols - 1, flaw)
        return Tup([pf, sp.Symbol("LSQ_RESID"), sp.Symbol("LSQ_RANK"), sp.Symbol("LSQ_SV")])

    def finfo(ev, a, k):
        from ..sym import Obj as _Obj
        return _Obj("ext:numpy.finfo", {"eps": sp.Rational(1, 2 ** 52), "tiny": sp.Rational(1, 2 ** 1022), "resolution": sp.Rational(1, 10 ** 15)})

    def len_(ev, a, k):
        v = a[0]
        if hasattr(v, "sym_len"):
            return v.sym_len()
        if is_sym(v):
            return sp.Symbol("VECLEN", positive=True, integer=True)
        from ..sym import lib_len
        return lib_len(ev, a, k, None, None)

    seeds[(TASKLIST, "__new__")] = new_tasklist
    intr.update({
        f"{TASKLIST}.resolve": resolve, f"{TASKLIST}.calculate": calculate,
        f"{TASKLIST}.get_adiabatic_results": res("AD"), f"{TASKLIST}.get_isothermal_results": res("IS"),
        "qha.grid_interpolation.calculate_eulerian_strain": strain_intr, "qha.fitting.polynomial_least_square_fitting": plsf_intr,
        "numpy.polyfit": polyfit, "numpy.polyval": polyval, "builtins.len": len_,
        "numpy.vander": vander, "numpy.linalg.lstsq": lstsq, "numpy.finfo": finfo,
    })
    for kname in ("numpy.array", "range", "numpy.gradient"):
        intr[kname] = df_wrap(DF_LIB[kname])
        intr["builtins." + kname] = intr[kname]
    calc.attrs["modulus_keys"] = Tup(ks, "list")
    ev = Ev(model, seeds, intr, ctx=ctx)
    return ev, calc, cap, ks


class PolyFit:
    def __init__(self, x, y, deg, flaw=None):
        self.x, self.y, self.deg = x, y, deg
        self.flaw = flaw        # what makes these coefficients differ from numpy.polyfit's (a truncating cut-off, increasing powers)


class VanderV:
    """numpy.vander(x, N): the design matrix of a polynomial fit of degree N - 1 (decreasing powers unless increasing=True)"""

    def __init__(self, x, ncols, increasing):
        self.x, self.ncols, self.increasing = x, ncols, increasing


def at0(x):
    return indexed(x, (sp.Integer(0),))


def static_reference(ev, key):
    xs = strain_of(ev, at0(VOLS2), VOLS2)
    xg = strain_of(ev, at0(VOLS2), V)
    xs, xg = fit_abscissae(xs, xg)
    return linear("POLYFIT", [xs, VOLS2 * sp.Symbol(f"CST_{key[1:]}", real=True), sp.Integer(3), xg], 1) / V / AU


def r_sum(ctx, model):
    ev, calc, cap, ks = setup(ctx, model)
    full = ev.construct(FULL, [calc], {})
    w = model.where(f"{FULL}.modulus_adiabatic")
    for attr, tag in (("modulus_adiabatic", "AD"), ("modulus_isothermal", "IS")):
        d = ev.get_attr(full, attr)
        if not isinstance(d, DictV):
            raise AnalysisError(f"{attr} is not a dict")
        bad = []
        for k in ks:
            got = d.d.get(k)
            want = static_reference(ev, k.name) + sp.Symbol(f"PH{tag}_{k.name[1:]}", real=True)
            if got is None or not is_zero(as_sym(got) - want):
                bad.append(f"{k.name}: {short(got, 200) if got is not None else 'missing'}")
        ctx.check(not bad and len(d.d) == len(ks), f"{attr}[key] = static fit + {'adiabatic' if tag == 'AD' else 'isothermal'} phonon part", model.where(f"{FULL}.{attr}"),
                  expected="POLYFIT(strain(V2[0],V2), V2*c [Ry/bohr^3], 3, strain(V2[0],V))/V + phonon[key]",
                  found="; ".join(bad[:2]) or "as required",
                  explanation=f"{attr} is not the static interpolation (cubic least squares in Eulerian strain of V*c, table converted "
                              f"GPa -> atomic units) plus the like-named phonon contribution", key=attr)
    # order of the task-list protocol and which getter feeds which store
    ctx.check(cap["calls"][:2] == ["resolve", "calculate"] and set(cap["calls"][2:]) == {"get_AD", "get_IS"}, "task list: resolve, calculate, then both result getters",
              model.where(f"{FULL}.calculate_phonon_contribution"), expected="resolve -> calculate -> get_adiabatic_results / get_isothermal_results",
              found=str(cap["calls"]), explanation="the phonon task list is not resolved and calculated before its results are read", key="tasklist.protocol")
    rs = cap.get("resolve", [None, None])
    ctx.check(isinstance(rs[1], Tup) and [getattr(x, "name", None) for x in rs[1].items] == [k.name for k in ks], "resolve receives the table's keys",
              model.where(f"{FULL}.calculate_phonon_contribution"), expected=str([k.name for k in ks]), found=str(rs[1]),
              explanation="the phonon part is not requested for exactly the components of the static table", key="tasklist.keys")
    # provenance: phonon request has no static value, static part has no temperature
    strains = rs[0]
    syms = set()
    if isinstance(strains, ArrV):
        for v in strains.cells.values():
            syms |= {str(s) for s in sp.sympify(v).free_symbols}
    ctx.check(not any(s.startswith("CST_") for s in syms), "phonon request does not depend on tabulated static moduli", model.where(f"{FULL}.get_axial_strains"),
              expected="axial strains from lattice parameters and volumes only", found=str(sorted(syms))[:200],
              explanation="the strain fractions handed to the phonon calculation depend on static elastic constants", key="provenance.phonon")
    st = static_reference(ev, "c11")
    got = as_sym(ev.call(ev.get_attr(full, "get_static_modulus"), [ks[0]], {}))
    ctx.check(is_zero(got - st) and T not in got.free_symbols, "static part: GPa -> Ry/bohr^3, fit of V*c, no temperature", model.where(f"{FULL}.get_static_modulus"),
              expected=short(st, 300), found=short(got, 300), explanation="the static interpolation is wrong (unit conversion, fitted quantity, degree, "
                                                                        "reference volume or evaluation grid)", key="static.fit")


def r_axial(ctx, model):
    # without a lattice block: constant (V,3) array (normalised to thirds by the task parameters, R04.5)
    ev, calc, cap, ks = setup(ctx, model, lattice=False)
    full = Obj(FULL, {"calculator": calc, "elast_data": calc.attrs["elast_data"]})
    w = model.where(f"{FULL}.get_axial_strains")
    a = ev.call(ev.get_attr(full, "get_axial_strains"), [], {})
    ok = isinstance(a, ArrV) and a.shape == (3,) and len({a.get((i,)) for i in range(3)}) == 1 and a.get((0,)).is_number and a.get((0,)) > 0
    ctx.check(ok, "no lattice block -> equal constant strains in the three directions", w, expected="constant (ntv, 3) array",
              found=str([a.get((i,)) for i in range(3)]) if isinstance(a, ArrV) else str(a),
              explanation="without lattice parameters the three axial strain fractions are not equal", key="axial.none")
    ev, calc, cap, ks = setup(ctx, model, lattice=True)
    full = Obj(FULL, {"calculator": calc, "elast_data": calc.attrs["elast_data"]})
    a = ev.call(ev.get_attr(full, "get_axial_strains"), [], {})
    if not (isinstance(a, ArrV) and a.shape == (3,)):
        raise AnalysisError("get_axial_strains does not return a (ntv, 3) array")
    lat = [LA, LB, LC]
    bad = []
    tot = sum(a.get((i,)) for i in range(3))
    ctx.check(is_zero(tot - 1), "rows of the axial strains are normalised by their sum", w, expected="sum over the three columns = 1", found=short(tot, 200),
              explanation="axial strain fractions of a volume do not sum to one", key="axial.normalised")
    for i in range(3):
        # the normalisation cancels in col_i/col_0 = raw_i/raw_0: numerator built from lattice column i only
        ratio = sp.together(a.get((i,)) / a.get((0,)))
        n_i, d_i = sp.fraction(ratio)
        used_n = {s for s in n_i.free_symbols if s in lat}
        used_d = {s for s in d_i.free_symbols if s in lat}
        if i and not (lat[i] in used_n and lat[0] in used_d):
            bad.append(f"column {i}: numerator uses {sorted(map(str, used_n))}")
    # explicit form: column i = r_i / (r_0 + r_1 + r_2), r_i = (t[2:] - t[:-2])/(t[2:] + t[:-2]), t = edge-padded fit of lattice column i
    from ..sym import edge_padded
    rs = []
    for i in range(3):
        fi = as_sym(ev.call(ev.get_attr(full, "fit_modulus"), [lat[i] / U.bohr], {}))
        t = edge_padded(fi)
        A, B = ev.subscript(t, sl(2, None)), ev.subscript(t, sl(None, -2))
        rs.append((A - B) / (A + B))
    wrong = [i for i in range(3) if not is_zero(a.get((i,)) - rs[i] / sum(rs))]
    ctx.check(not bad and not wrong, "column i = difference-over-sum of the fitted, edge-padded axis length i", w,
              expected="(t[2:] - t[:-2])/(t[2:] + t[:-2]), t = pad(fit(lattice[:, i])), normalised by the row sum",
              found=(f"column {wrong[0]} = {short(a.get((wrong[0],)), 200)}" if wrong else ("; ".join(bad) or "as required")),
              explanation="axial strains are not the centred logarithmic derivative of the fitted axis lengths, or lattice column i "
                          "does not feed strain column i", key="axial.form")


def sl(lo, hi):
    from ..sym import SliceV
    return SliceV(sp.Integer(lo) if lo is not None else None, sp.Integer(hi) if hi is not None else None, None)


def r_pstatic(ctx, model):
    ref = f"{CALC}._calculate_pressure_static"
    f = model.func(ref)
    # the static curve is the cubic finite-strain fit whatever the configuration says about the QHA fit (qha.settings.order is
    # the order of the free-energy fit, a different quantity): folded under four configurations
    for label, order in (("qha order not configured", None), ("qha order 3", 3), ("qha order 4", 4), ("qha order 5", 5)):
        ev, calc, cap, ks = setup(ctx, model)
        settings = DictV({} if order is None else {"order": sp.Integer(order)})
        calc.attrs["config"] = DictV({"qha": DictV({"settings": settings, "input": "input01"}), "elast": DictV({"settings": DictV({}), "input": "input02"})})
        ev.call_def(f, model.mods["cij.core.calculator"], ref, [calc], {})
        got = calc.attrs.get("static_p_array")
        if got is None:
            raise AnalysisError("_calculate_pressure_static does not set static_p_array")
        xs = strain_of(ev, at0(VOLS), VOLS)
        xg = strain_of(ev, at0(VOLS), V)
        xs, xg = fit_abscissae(xs, xg)
        fit = linear("FIT", [xs, ENER, xg, sp.Integer(3)], 1)
        want = -linear("GRAD", [fit], 0) / linear("GRAD", [V], 0) / AU
        ctx.check(is_zero(as_sym(got) - want), f"static pressure = -grad(cubic fit of input energies)/grad(V) ({label})", model.where(ref, f), expected=short(want, 300),
                  found=short(got, 300), explanation="static pressure is not minus the volume derivative of the finite-strain fit of the input "
                                                     f"static energies (sign, fitted data, shared reference volume, order 3) when the configuration has {label}",
                  key=f"static_p.{label}")
    fd = lib_func("qha/fitting.py", "polynomial_least_square_fitting")
    ctx.libfact(f"installed polynomial_least_square_fitting returns arity {sorted(return_arity(fd))}")


def r_typestate(ctx, model):
    """Calculator.__init__: every instance attribute is assigned before a step reads it; symmetry filling
    precedes the first (cached) read of modulus_keys"""
    mod = model.mods["cij.core.calculator"]
    init = model.func(f"{CALC}.__init__")
    ctx.fn(f"{CALC}.__init__")
    cls = model.cls(CALC)
    methods = {n.name: n for n in cls.body if isinstance(n, ast.FunctionDef)}
    inst_attrs = set()
    for m in methods.values():
        sn = m.args.args[0].arg if m.args.args else "self"
        for st in ast.walk(m):
            if isinstance(st, (ast.Assign, ast.AugAssign)):
                for t in (st.targets if isinstance(st, ast.Assign) else [st.target]):
                    if isinstance(t, ast.Attribute) and isinstance(t.value, ast.Name) and t.value.id == sn:
                        inst_attrs.add(t.attr)

    def rw(m, seen=None):
        """(reads, writes) of self attributes, following self.method() / property reads one class deep"""
        seen = seen or set()
        if m.name in seen:
            return set(), set()
        seen = seen | {m.name}
        sn = m.args.args[0].arg if m.args.args else "self"
        reads, writes = [], []
        events = []
        for n in ast.walk(m):
            if isinstance(n, ast.Attribute) and isinstance(n.value, ast.Name) and n.value.id == sn:
                if isinstance(n.ctx, ast.Store):
                    writes.append(n.attr)
                else:
                    reads.append(n.attr)
        r, wset = set(reads), set(writes)
        for a in list(r):
            if a in methods and a != m.name:
                r2, w2 = rw(methods[a], seen)
                r |= r2
                wset |= w2
        # eager constructors that receive this calculator: everything they (transitively) read through `.calculator.<attr>`
        for c in ast.walk(m):
            if isinstance(c, ast.Call) and any(isinstance(a, ast.Name) and a.id == sn for a in c.args):
                kind, ref = model.resolve_name(mod, dotted_name(c.func) or "")
                if kind == "class" and eager_ctor(ref):
                    r |= calculator_reads(ref.split(":")[0])
        return r, wset

    def eager_ctor(cref):
        owner, ini, _ = model.find_member(cref, "__init__")
        if ini is None:
            return False
        s0 = ini.args.args[0].arg
        return any(isinstance(c, ast.Call) and isinstance(c.func, ast.Attribute) and isinstance(c.func.value, ast.Name) and c.func.value.id == s0
                   for c in ast.walk(ini))

    def calculator_reads(mname, seen=None):
        seen = seen if seen is not None else set()
        if mname in seen or mname not in model.mods:
            return set()
        seen.add(mname)
        m2 = model.mods[mname]
        out = set()
        for n in ast.walk(m2.tree):
            if isinstance(n, ast.Attribute) and isinstance(n.ctx, ast.Load):
                base = n.value
                if (isinstance(base, ast.Attribute) and base.attr == "calculator") or (isinstance(base, ast.Name) and base.id == "calculator"):
                    out.add(n.attr)
        for entry in m2.imports.values():
            if entry[0] == "from" and entry[1].startswith("cij.core") and entry[1] != "cij.core.calculator":
                kind, ref = model.resolve_import(entry)
                tgt = ref.split(":")[0] if kind in ("class", "func", "global") else (ref if kind == "module" else None)
                if tgt:
                    out |= calculator_reads(tgt, seen)
                    if tgt in model.mods and model.mods[tgt].path.name == "__init__.py":
                        for e2 in model.mods[tgt].imports.values():
                            k2, r2 = model.resolve_import(e2)
                            if k2 in ("class", "func"):
                                out |= calculator_reads(r2.split(":")[0], seen)
        return out

    assigned = set()
    sn = init.args.args[0].arg
    steps = []
    for st in body_wo_doc(init):
        if is_logging_stmt(st):
            continue
        if isinstance(st, ast.Expr) and isinstance(st.value, ast.Call) and isinstance(st.value.func, ast.Attribute) \
                and isinstance(st.value.func.value, ast.Name) and st.value.func.value.id == sn and st.value.func.attr in methods:
            m = methods[st.value.func.attr]
            r, wr = rw(m)
            steps.append((st, m.name, r, wr))
        elif isinstance(st, ast.Assign) and isinstance(st.targets[0], ast.Attribute) and src(st.targets[0].value) == sn:
            r = {n.attr for n in ast.walk(st.value) if isinstance(n, ast.Attribute) and isinstance(n.value, ast.Name) and n.value.id == sn}
            r2 = set(r)
            for a in r:
                if a in methods:
                    rr, _ = rw(methods[a])
                    r2 |= rr
            steps.append((st, f"self.{st.targets[0].attr} = ...", r2, {st.targets[0].attr}))
        else:
            raise AnalysisError(f"Calculator.__init__: unrecognised step {src(st)[:60]}")
    first_keys = None
    sym_step = None
    for k, (st, name, r, wr) in enumerate(steps):
        own_first = wr - assigned
        missing = sorted(a for a in (r & inst_attrs) - assigned - own_first)
        # attributes a step both writes and reads are checked inside the step by the folder (C01/C05 rules)
        ctx.check(not missing, f"step {k}: {name} reads only attributes assigned earlier", model.where(f"{CALC}.__init__", st),
                  expected="assigned by an earlier step", found=f"reads {missing} before any step assigns them",
                  explanation=f"Calculator.__init__ runs {name} before the attribute(s) {missing} it reads are assigned (AttributeError "
                              f"or, through __getattr__ delegation, a misleading lookup on the QHA adapter)", key=f"init.{name}")
        assigned |= wr
        if "modulus_keys" in r and first_keys is None:
            first_keys = k
        if name == "_apply_elastic_constants_symmetry":
            sym_step = k
    ctx.check(sym_step is not None and first_keys is not None and sym_step < first_keys, "symmetry filling precedes the first read of the cached modulus_keys",
              model.where(f"{CALC}.__init__", init), expected="_apply_elastic_constants_symmetry before any reader of modulus_keys",
              found=f"symmetry step {sym_step}, first modulus_keys reader {first_keys}",
              explanation="modulus_keys is cached on first read: read before the symmetry filling, the generated components would be "
                          "missing from every later result", key="init.modulus_keys")
    ctx.floor("steps of Calculator.__init__", len(steps), 10)


def r_symmetry_step(ctx, model):
    """the crystal-system filling is applied whenever a non-triclinic system is configured - whatever the table tabulates
    (a few components, or all 21 with scatter) - and never otherwise; it receives the static table and the symmetry settings"""
    from ..facts import KEYS21
    from ..sym import RaisedV
    ref = f"{CALC}._apply_elastic_constants_symmetry"
    f = model.func(ref)
    w = model.where(ref, f)
    systems = [None, "triclinic", "cubic", "hexagonal", "monoclinic", "orthorhombic", "tetragonal6", "tetragonal7", "trigonal6", "trigonal7"]
    shapes = {"three components": ["c11", "c12", "c44"], "nine components": ["c11", "c22", "c33", "c12", "c13", "c23", "c44", "c55", "c66"], "all 21 components": list(KEYS21)}
    bad = []
    n = 0
    for system in systems:
        for shape, keys in shapes.items():
            for nvol in (1, 3):
                n += 1
                calls = []
                vols = Tup([Obj("cij.io.traditional.elast_dat:ElastVolumeData", {
                    "volume": sp.Symbol(f"VOL{i}", positive=True),
                    "static_elastic_modulus": DictV({KeyObj(k): sp.Symbol(f"CST{i}_{k[1:]}", real=True) for k in keys})}) for i in range(nvol)], "list")
                elast = Obj("cij.io.traditional.elast_dat:ElastData", {"volumes": vols, "nv": sp.Integer(nvol), "cellmass": sp.Symbol("CELLM", positive=True),
                                                                       "vref": sp.Symbol("VREF", positive=True), "lattice_parameters": Tup([], "list")})
                symm = DictV({"system": system} if system is not None else {})
                calc = Obj(CALC, {"elast_data": elast, "config": DictV({"elast": DictV({"settings": DictV({"symmetry": symm})})})})
                intr = {"cij.io.traditional.elast_dat:apply_symetry_on_elast_data": lambda ev, a, k: calls.append((list(a), k.all())) or None,
                        "cij.c_": c_intrinsic}
                ev = Ev(model, {("global", "cij.util:c_"): LibV("cij.c_")}, intr, ctx=ctx)
                try:
                    ev.call_def(f, model.mods["cij.core.calculator"], ref, [calc], {})
                except RaisedV as e:
                    bad.append(f"system {system}, {shape}, {nvol} volume(s): raises {e.exc_name}")
                    continue
                want = system not in (None, "triclinic")
                okc = (len(calls) == 1 and len(calls[0][0]) >= 2 and calls[0][0][0] is elast and calls[0][0][1] is symm) if want else not calls
                if not okc:
                    bad.append(f"system {system}, {shape}, {nvol} volume(s): " + (f"filling called {len(calls)} time(s)" if want else "filling applied"))
    ctx.check(not bad, f"symmetry filling applied iff a non-triclinic system is configured ({n} scenarios: 10 systems x table shapes x volume counts)", w,
              expected="apply_symetry_on_elast_data(self.elast_data, <symmetry settings>) exactly once for a non-triclinic system; never otherwise",
              found="; ".join(bad[:4]) or f"{n} scenarios as required",
              explanation="the crystal-system filling is skipped (or applied) depending on what the static table happens to tabulate: with a "
                          "system requested, a complete table with scatter is no longer projected onto the symmetric tensor, "
                          "symmetry-forbidden entries are not dropped", key="symmetry.step")


RULES = [
    ("R05.6", "crystal-system filling applied first for every configured system and table shape", r_symmetry_step),
    ("R05.1-4", "total = static fit (GPa -> au, V*c cubic in Eulerian strain, shared reference) + like-named phonon store; task-list protocol; provenance", r_sum),
    ("R05.5", "axial strains: constant without lattice block; difference-over-sum of fitted axis lengths, row-normalised", r_axial),
    ("R05.7", "static pressure = -grad(fit of input energies)/grad(V)", r_pstatic),
    ("R05.8", "typestate of Calculator.__init__ (assign before read; symmetry before cached modulus_keys)", r_typestate),
]
