"""C19 — extract and extract-geotherm return table values faithfully."""
from __future__ import annotations

import ast
import fnmatch

import sympy as sp
import yaml

from ..model import dotted_name, src
from ..report import AnalysisError, REPO, Where
from ..sym import Ev, Tup, DictV, BoundLib, RaisedV, as_sym, is_sym, LibV, whitespace_sep, kw_accept

EXTRACT = "cij.cli.extract"
GEO = "cij.cli.geotherm"
LEVEL = "other"
TECHNIQUE = "static analysis: folding of the two commands on a table model with axis roles (rows = T, columns = P); file-pattern agreement with the writer rules"
EXPLANATION = (
    "Static analysis decides: `extract` transposes the (T rows x P columns) table iff the pressure option is the one given, "
    "picks the arg-min of |axis labels - requested value| over the frame's index and returns the row at that position of "
    "the same axis, labelled by the other axis; `extract-geotherm` builds the bivariate spline as (x = row labels, "
    "y = column labels, z = values) and evaluates it at (geotherm temperature column, geotherm pressure column) pointwise "
    "(grid=False) through the option defaults, only adding columns to the geotherm frame before printing; the file pattern "
    "'<var>_tp_*' selects exactly the pressure-base file the writer produces for that variable; labels are parsed as floats.")
NOT_DECIDED = "spline convergence under grid refinement and exactness at grid nodes (scipy RectBivariateSpline)."
ASSUMPTIONS = ["output tables have temperatures as rows and pressures as columns (qha save_x_tp, property C15)",
               "T-LIB: RectBivariateSpline(x, y, z)(xi, yi, grid=False) evaluates pointwise with x <-> rows of z"]


class Axis:
    def __init__(self, role):
        self.role = role                 # 'T' or 'P'
        self.sym = sp.Symbol(f"LABELS_{role}", real=True)

    def sym_getattr(self, ev, name, node, mod):
        if name == "to_numpy":
            return BoundLib("identity", self.sym)
        raise ev.err(f"axis attribute {name}", node, mod)

    def sym_iter(self, ev, n, mod):
        return [self.sym]       # elementwise: [float(x) for x in axis]


class Table:
    def __init__(self, var, index="T", columns="P", parsed=None):
        self.var, self.index, self.columns = var, index, columns
        self.parsed = parsed or {"index": False, "columns": False}

    def sym_getattr(self, ev, name, node, mod):
        if name == "T":
            return Table(self.var, self.columns, self.index, {"index": self.parsed["columns"], "columns": self.parsed["index"]})
        if name == "columns":
            return Axis(self.columns)
        if name == "index":
            return Axis(self.index)
        if name == "iloc":
            return ILoc(self)
        if name == "to_numpy":
            return BoundLib("identity", sp.Symbol(f"VALUES_{self.var}_{self.index}x{self.columns}"))
        raise ev.err(f"table attribute {name}", node, mod)

    def sym_setattr(self, ev, name, v, node, mod):
        if name in ("columns", "index"):
            role = self.columns if name == "columns" else self.index
            ok = isinstance(v, Tup) and len(v.items) == 1 and v.items[0] == sp.Symbol(f"LABELS_{role}", real=True)
            if not ok:
                raise ev.err(f"{name} replaced by something that is not float(label) of the same axis", node, mod)
            self.parsed[name] = True
            return
        raise ev.err(f"store to table attribute {name}", node, mod)


class ILoc:
    def __init__(self, t):
        self.t = t

    def sym_subscript(self, ev, idx, n, mod):
        return RowAt(self.t, as_sym(idx))


class RowAt:
    def __init__(self, table, pos):
        self.table, self.pos = table, pos


ARGMIN, ABS = sp.Function("ARGMIN"), sp.Function("ABSV")


def fold_extract(ctx, model, temperature=None, pressure=None):
    out = {}

    def load_data(ev, a, k):
        return Table(a[0])

    class OutTable:
        def __init__(self, columns, index):
            self.columns, self.index, self.cols = columns, index, {}

        def sym_store(self, ev, idx, v, t, mod):
            self.cols[idx] = v

        def sym_getattr(self, ev, name, node, mod):
            if name == "to_string":
                return BoundLib("outtable.to_string", self)
            raise ev.err(f"attribute {name}", node, mod)

    def dataframe(ev, a, k):
        return OutTable(k.get("columns"), k.get("index"))

    intr = {
        f"{EXTRACT}:load_data": load_data, "pandas.DataFrame": dataframe,
        "numpy.argmin": lambda ev, a, k: ARGMIN(as_sym(a[0])), "numpy.abs": lambda ev, a, k: ABS(as_sym(a[0])),
        "identity": lambda ev, a, k: a[0],
        "outtable.to_string": lambda ev, a, k: out.update(table=a[0], opts=k.all()) or "TEXT",
        "builtins.print": lambda ev, a, k: None,
    }
    ev = Ev(model, {}, intr, ctx=ctx)
    f = model.func(f"{EXTRACT}:main")
    ev.call_def(f, model.mods[EXTRACT], f"{EXTRACT}:main", [], {"variables": "c11s,bm_VRH", "hide_header": False,
                                                                 "temperature": temperature, "pressure": pressure})
    return out


def r_extract(ctx, model):
    w = model.where(f"{EXTRACT}:main")
    TV, PV = sp.Symbol("TREQ", real=True), sp.Symbol("PREQ", real=True)
    for label, kw, axis, other, req in (("-T", dict(temperature=TV), "T", "P", TV), ("-P", dict(pressure=PV), "P", "T", PV)):
        out = fold_extract(ctx, model, **kw)
        t = out.get("table")
        if t is None:
            raise AnalysisError("extract: no table is printed")
        bad = []
        idx = t.index
        if not (isinstance(idx, Axis) and idx.role == other):
            bad.append(f"result is labelled by {getattr(idx, 'role', idx)}, expected {other}")
        for var in ("c11s", "bm_VRH"):
            r = t.cols.get(var)
            if not isinstance(r, RowAt):
                bad.append(f"{var}: not a row selection")
                continue
            want = ARGMIN(ABS(sp.Symbol(f"LABELS_{axis}", real=True) - req))
            if r.table.var != var or r.table.index != axis or r.pos != want:
                bad.append(f"{var}: row {r.pos} of the {r.table.index}-indexed table of {r.table.var}")
        if list(getattr(t.columns, "items", [])) != ["c11s", "bm_VRH"]:
            bad.append(f"columns {t.columns}")
        ctx.check(not bad, f"extract {label}: nearest {axis} entry of each variable, labelled by {other}", w,
                  expected=f"iloc[argmin |{axis} labels - requested|] of the table indexed by {axis}", found="; ".join(bad) or "as required",
                  explanation=f"extract {label} does not return the table line nearest to the requested {'temperature' if axis == 'T' else 'pressure'} "
                              f"(wrong axis, missing transpose, or index taken on the other axis)", key=f"extract.{label}")


def r_load(ctx, model):
    """load_data: file pattern agrees with the writer; first column is the row labels; labels parsed as floats"""
    rules = yaml.safe_load((REPO / "cij" / "data" / "output" / "writer_rules.yml").read_text())
    for modname in (EXTRACT, GEO):
        ref = f"{modname}:load_data"
        f = model.func(ref)
        w = model.where(ref, f)
        cap = {}

        def glob_(ev, a, k):
            cap["pattern"] = a[0]
            return Tup(["FILE0"], "list")

        def read_table(ev, a, k):
            kw_accept(k, "header", lambda v: v in (0, "infer") or v == 0)
            kw_accept(k, "engine", lambda v: True)
            cap["read"] = (a, {kk: k.get(kk) for kk in ("sep", "index_col", "delim_whitespace")})
            return Table("VAR")

        intr = {"glob.glob": glob_, "pandas.read_table": read_table, "builtins.float": lambda ev, a, k: a[0]}
        ev = Ev(model, {}, intr, ctx=ctx)
        t = ev.call_def(f, model.mods[modname], ref, ["VARNAME"], {})
        a, k = cap.get("read", ((), {}))
        ok = isinstance(t, Table) and t.parsed == {"index": True, "columns": True} and a and a[0] == "FILE0" and k.get("index_col") == 0 \
            and (whitespace_sep(k.get("sep")) or k.get("delim_whitespace") is True)
        ctx.check(ok, f"{modname.split('.')[-1]}.load_data reads the first match with row labels in column 0 and float labels on both axes", w,
                  expected="read_table(glob(pattern)[0], sep=whitespace, index_col=0); columns/index -> float", found=f"kwargs {list(k)}, parsed {getattr(t, 'parsed', None)}",
                  explanation="the output table is not read with its first column as row labels, or labels stay strings (nearest-value search breaks)", key=f"{modname}.load")
        pat = cap.get("pattern")
        if not isinstance(pat, str):
            raise AnalysisError("load_data: glob pattern is not a constant string for a constant variable name")
        bad = []
        n = 0
        for r in rules:
            fn = r["fname_pattern"]
            for ij in (["11", "46"] if "{ij}" in fn else [""]):
                name = fn.format(base="tp", ij=ij)
                var = name.split("_tp_")[0]
                n += 1
                mine = pat.replace("VARNAME", var)
                others = [o["fname_pattern"].format(base=b, ij=i2) for o in rules for b in ("tp", "tv") for i2 in (["11", "46"] if "{ij}" in o["fname_pattern"] else [""])]
                hits = [o for o in set(others) if fnmatch.fnmatch(o, mine)]
                if hits != [name]:
                    bad.append(f"{var}: pattern {mine} matches {sorted(hits)}")
        ctx.check(not bad, f"{modname.split('.')[-1]}: pattern '<var>_tp_*' selects exactly the writer's pressure-base file ({n} variables)", w,
                  expected="one match: the tp file of that variable", found="; ".join(bad[:3]) or "unique match for every variable",
                  explanation="the file pattern used to load a variable matches no file, another variable's file, or the volume-base file", key=f"{modname}.pattern")


def r_geotherm(ctx, model):
    ref = f"{GEO}:main"
    f = model.func(ref)
    w = model.where(ref, f)
    # option defaults from the click decorators
    defaults = {}
    for d in f.decorator_list:
        if isinstance(d, ast.Call) and (dotted_name(d.func) or "").endswith("option"):
            names = [a.value for a in d.args if isinstance(a, ast.Constant) and isinstance(a.value, str) and a.value.startswith("--")]
            kw = {k.arg: k.value for k in d.keywords}
            if names and "default" in kw and isinstance(kw["default"], ast.Constant):
                defaults[names[0][2:].replace("-", "_")] = kw["default"].value
    cap = {"splines": [], "evals": []}

    class Geo:
        def __init__(self):
            self.cols = {"P": sp.Symbol("GEO_P"), "T": sp.Symbol("GEO_T"), "D": sp.Symbol("GEO_D")}
            self.order = ["P", "D", "T"]

        def sym_subscript(self, ev, idx, n, mod):
            if idx not in self.cols:
                raise RaisedV("KeyError")
            return self.cols[idx]

        def sym_store(self, ev, idx, v, t, mod):
            if idx in ("P", "T", "D"):
                cap["overwrote"] = idx
            self.cols[idx] = v
            self.order.append(idx)

        def sym_getattr(self, ev, name, node, mod):
            if name == "to_string":
                return BoundLib("geo.to_string", self)
            raise ev.err(f"attribute {name}", node, mod)

    class Spl:
        def __init__(self, a, k):
            b = dict(zip(["x", "y", "z"], a))
            b.update(k)
            self.b = b

        def sym_call(self, ev, args, kwargs, n, mod):
            cap["evals"].append((self, args, kwargs))
            return sp.Symbol(f"SPLVAL{len(cap['evals'])}")

    geo = Geo()
    intr = {
        f"{GEO}:load_data": lambda ev, a, k: Table(a[0]),
        "pandas.read_table": lambda ev, a, k: cap.update(read=(a, {kk: k.get(kk) for kk in ("sep", "index_col", "header", "delim_whitespace")}))
                             or kw_accept(k, "engine", lambda v: True) or geo,
        "scipy.interpolate.RectBivariateSpline": lambda ev, a, k: Spl(a, k),
        "identity": lambda ev, a, k: a[0], "geo.to_string": lambda ev, a, k: cap.update(printed=(a[0], k.all())) or "TEXT",
        "builtins.print": lambda ev, a, k: None,
    }
    ev = Ev(model, {}, intr, ctx=ctx)
    kwargs = {"variables": "c11s,vp", "hide_header": False, "geotherm": "geo.txt", "t_col": defaults.get("t_col"), "p_col": defaults.get("p_col")}
    ev.call_def(f, model.mods[GEO], ref, [], kwargs)
    bad = []
    if len(cap["evals"]) != 2:
        bad.append(f"{len(cap['evals'])} spline evaluations for 2 variables")
    for spl, args, kw in cap["evals"]:
        b = spl.b
        from ..sym import Transposed
        role = {sp.Symbol("LABELS_T", real=True): "T", sp.Symbol("LABELS_P", real=True): "P"}
        rx, ry = role.get(b.get("x")), role.get(b.get("y"))
        z = b.get("z")
        zt = getattr(z, "func", None) == Transposed
        if {rx, ry} != {"T", "P"} or not str(z.args[0] if zt else z).startswith("VALUES_") or zt != (rx == "P"):
            bad.append(f"spline axes x={b.get('x')} y={b.get('y')} z={z}: rows of z must run along x")
        geo_role = {sp.Symbol("GEO_T"): "T", sp.Symbol("GEO_P"): "P"}
        got = tuple(geo_role.get(a) for a in args[:2]) if len(args) == 2 else None
        if got != (rx, ry):
            bad.append(f"spline over ({rx}, {ry}) evaluated at geotherm columns {got}")
        if kw.get("grid") is not False:
            bad.append("grid=False missing: evaluates on the outer product instead of along the path")
    ctx.check(not bad, "extract-geotherm: spline(x = T rows, y = P columns, z = values) evaluated at (geotherm T, geotherm P) pointwise", w,
              expected="RectBivariateSpline(index, columns, values)(table[T column], table[P column], grid=False)", found="; ".join(bad) or "as required",
              explanation="axis roles of the bivariate spline and of its evaluation point disagree (temperature and pressure are swapped, or the "
                          "spline is evaluated on a grid instead of along the geotherm)", key="geotherm.axes")
    ra, rk = cap.get("read", ((), {}))
    ok_read = bool(ra) and ra[0] == "geo.txt" and (whitespace_sep(rk.get("sep")) or rk.get("delim_whitespace") is True) \
        and rk.get("index_col") in (None, False) and (rk.get("header") in (None, "infer") or rk.get("header") == 0)
    ctx.check(ok_read, "the geotherm file is read as a whitespace table with a header line and no index column", w,
              expected="read_table(geotherm, sep=whitespace, index_col=None, header=0)", found=str(rk),
              explanation="the geotherm's P/D/T columns are not all read as data columns named by the header line (a column is taken as "
                          "the index, the header is treated as data, or the separator is not whitespace)", key="geotherm.read")
    printed = cap.get("printed")
    ok = printed is not None and printed[0] is geo and "overwrote" not in cap and geo.order == ["P", "D", "T", "c11s", "vp"] \
        and printed[1].get("index") is False
    ctx.check(ok, "geotherm columns pass through unchanged; one new column per variable; printed without the index", w,
              expected="P, D, T, c11s, vp", found=f"{geo.order}; overwrote {cap.get('overwrote')}",
              explanation="the geotherm's own columns are modified or results are not appended as new columns", key="geotherm.passthrough")
    ctx.check(defaults.get("p_col") == "T" and defaults.get("t_col") == "P", "option defaults name the geotherm's T and P columns consistently with their use", w,
              expected="the column used as temperature defaults to 'T', the one used as pressure to 'P'", found=str(defaults),
              explanation="with default options the temperature argument of the spline receives the pressure column", key="geotherm.defaults")


RULES = [
    ("R19.1", "extract: transpose iff -P; arg-min over the frame's index; row of the same axis; labels of the other axis", r_extract),
    ("R19.3", "load_data: pattern agreement with the writer rules, label column and float labels", r_load),
    ("R19.2,4", "extract-geotherm: spline axis roles vs evaluation arguments, grid=False, pass-through of geotherm columns", r_geotherm),
]
