"""C19 — extract and extract-geotherm return table values faithfully."""
from __future__ import annotations

import ast
import fnmatch

import sympy as sp
import yaml

from ..model import dotted_name, src
from ..report import AnalysisError, REPO, Where
from ..sym import Ev, Tup, DictV, BoundLib, RaisedV, as_sym, is_sym, LibV, whitespace_sep, kw_accept

EXTRACT = "cij.cli.extract"
GEO = "cij.cli.geotherm"
LEVEL = "other"
TECHNIQUE = "static analysis: folding of the two commands on a table model with axis roles (rows = T, columns = P); file-pattern agreement with the writer rules"
EXPLANATION = (
    "Static analysis decides: `extract` transposes the (T rows x P columns) table iff the pressure option is the one given, "
    "picks the arg-min of |axis labels - requested value| over the frame's index and returns the row at that position of "
    "the same axis, labelled by the other axis; `extract-geotherm` builds the bivariate spline as (x = row labels, "
    "y = column labels, z = values) and evaluates it at (geotherm temperature column, geotherm pressure column) pointwise "
    "(grid=False) through the option defaults, only adding columns to the geotherm frame before printing; the file pattern "
    "'<var>_tp_*' selects exactly the pressure-base file the writer produces for that variable; labels are parsed as floats.")
NOT_DECIDED = "spline convergence under grid refinement and exactness at grid nodes (scipy RectBivariateSpline)."
ASSUMPTIONS = ["output tables have temperatures as rows and pressures as columns (qha save_x_tp, property C15)",
               "T-LIB: RectBivariateSpline(x, y, z)(xi, yi, grid=False) evaluates pointwise with x <-> rows of z"]


from ..anf import short
from ..tablemodel import Axis, Table, Grid2, Line1, SeriesV, OutTable, ARGMIN, ABS, labels, role_of, canon_pos, PART_ROLES, intrinsics as table_intrinsics


def fold_extract(ctx, model, temperature=None, pressure=None):
    out = {}
    intr = table_intrinsics(out)
    intr.update({
        f"{EXTRACT}:load_data": lambda ev, a, k: Table(a[0], parsed={"index": True, "columns": True}),
        "builtins.print": lambda ev, a, k: None, "click.echo": lambda ev, a, k: None, "sys.stdout.write": lambda ev, a, k: None,
    })
    ev = Ev(model, {}, intr, ctx=ctx)
    f = model.func(f"{EXTRACT}:main")
    ev.call_def(f, model.mods[EXTRACT], f"{EXTRACT}:main", [], {"variables": "c11s,bm_VRH", "hide_header": False,
                                                                 "temperature": temperature, "pressure": pressure})
    return out


def r_extract(ctx, model):
    w = model.where(f"{EXTRACT}:main")
    TV, PV = sp.Symbol("TREQ", real=True), sp.Symbol("PREQ", real=True)
    failed = set()
    Z = sp.Integer(0)
    for label, kw, axis, other, req in (("-T 0", dict(temperature=Z), "T", "P", Z), ("-P 0", dict(pressure=Z), "P", "T", Z),
                                        ("-T", dict(temperature=TV), "T", "P", TV), ("-P", dict(pressure=PV), "P", "T", PV)):
        if label[:2] in failed:
            continue            # the request with value 0 already fails: the general request is not folded on top of it
        try:
            out = fold_extract(ctx, model, **kw)
        except RaisedV as e:
            ctx.violation(f"extract.{label}", w, "the command completes", f"raises {e.exc_name}", f"extract {label} raises {e.exc_name} (e.g. a result labelled by the wrong axis)",
                          instance=f"extract {label}: nearest {axis} entry of each variable, labelled by {other}")
            failed.add(label[:2])
            continue
        t = out.get("table")
        if not isinstance(t, OutTable):
            raise AnalysisError("extract: no table is printed")
        bad = []
        idx = t.index
        idx_role = idx.role if isinstance(idx, Axis) else (role_of(idx) if is_sym(idx) else None)
        if idx_role != other:
            bad.append(f"result is labelled by {idx_role or idx}, expected {other}")
        want_pos = canon_pos(ARGMIN(ABS(labels(axis) - req)))
        for var in ("c11s", "bm_VRH"):
            r = t.cols.get(var)
            ln = r.line if isinstance(r, SeriesV) else r
            if not isinstance(ln, Line1):
                bad.append(f"{var}: not one line of a table ({r!r})")
                continue
            if ln.var != var or ln.fixed != axis or ln.along != other or canon_pos(ln.pos) != want_pos:
                bad.append(f"{var}: {ln!r}")
        if list(getattr(t.columns, "items", [])) != ["c11s", "bm_VRH"]:
            bad.append(f"columns {t.columns}")
        opts = out.get("opts", {})
        if opts.get("header", True) is not True or opts.get("index", True) is False:
            bad.append(f"printed with {opts}")
        if bad:
            failed.add(label[:2])
        ctx.check(not bad, f"extract {label}: nearest {axis} entry of each variable, labelled by {other}", w,
                  expected=f"for each variable the line of its table with {axis} fixed at argmin |{axis} labels - requested|, running along and labelled by {other}",
                  found="; ".join(bad) or "as required",
                  explanation=f"extract {label} does not return the table line nearest to the requested {'temperature' if axis == 'T' else 'pressure'} "
                              f"(wrong axis, missing transpose, position searched on the other axis, or labels of the wrong axis)", key=f"extract.{label}")


def r_load(ctx, model):
    """load_data: file pattern agrees with the writer; first column is the row labels; labels parsed as floats"""
    rules = yaml.safe_load((REPO / "cij" / "data" / "output" / "writer_rules.yml").read_text())
    seen_refs = set()
    for modname in (EXTRACT, GEO):
        # the loader each command uses: its own function, or one imported from the sibling command
        kind, ref = model.resolve_from(modname, "load_data")
        if kind != "func":
            raise AnalysisError(f"anchor vanished: {modname}:load_data")
        if ref in seen_refs:
            continue
        seen_refs.add(ref)
        modname = ref.split(":")[0]
        f = model.func(ref)
        w = model.where(ref, f)
        cap = {}

        def glob_(ev, a, k):
            cap["pattern"] = a[0]
            return Tup(["FILE0"], "list")

        def read_table(ev, a, k):
            kw_accept(k, "header", lambda v: v in (0, "infer") or v == 0)
            kw_accept(k, "engine", lambda v: True)
            cap["read"] = (a, {kk: k.get(kk) for kk in ("sep", "index_col", "delim_whitespace")})
            t_ = Table("VAR")
            if k.get("index_col") == 0:
                from ..tablemodel import qha_corner_label
                t_.index_name = qha_corner_label("save_x_tp")       # the corner text of the header line becomes the name of the index
            return t_

        intr = table_intrinsics({})
        intr.update({"glob.glob": glob_, "pandas.read_table": read_table, "pandas.read_csv": read_table, "builtins.float": lambda ev, a, k: a[0],
                     "numpy.float64": lambda ev, a, k: a[0]})
        ev = Ev(model, {}, intr, ctx=ctx)
        from ..sym import explore_branches

        def run(decide):
            ev.branch_oracle = decide
            try:
                return ev.call_def(f, model.mods[modname], ref, ["VARNAME"], {})
            finally:
                ev.branch_oracle = None
        try:
            paths = explore_branches(run, limit=8)
        except AnalysisError as e:
            lm = getattr(e, "label_mismatch", None)
            if lm is None:
                raise
            ctx.violation(f"{modname}.load.labels", w, expected=f"{lm[0]} labels = float(label) of the table's own {lm[0]}", found=f"{lm[0]} <- {str(lm[1])[:120]}",
                          explanation=f"{modname.split('.')[-1]}.load_data replaces the table's {lm[0]} labels by something other than their float values (truncated, rounded, "
                                      f"re-numbered or taken from the other axis): the nearest-value search and the printed labels no longer refer to the table's own grid",
                          instance=f"{modname.split('.')[-1]}.load_data labels")
            continue
        # a branch on the VALUES of the table (its labels, its entries) can go either way for valid tables: the loader must hand back the table as written on every path
        wrong = [(dec, tt) for dec, tt in paths if not (isinstance(tt, Table) and (tt.index, tt.columns) == ("T", "P"))]
        if len(paths) > 1:
            ctx.check(not wrong, f"{modname.split('.')[-1]}.load_data: every outcome of its data-dependent branch(es) returns the table with temperatures down the rows and pressures across", w,
                      expected="rows = temperatures, columns = pressures whatever the values in the table", found="; ".join(
                          f"when [{', '.join(str(c_)[:80] + (' holds' if v_ else ' fails') for c_, v_ in dec)}]: rows {getattr(tt, 'index', '?')}, columns {getattr(tt, 'columns', '?')}" for dec, tt in wrong[:2]) or f"{len(paths)} paths alike",
                      explanation=f"{modname.split('.')[-1]}.load_data decides from the NUMBERS in the table how to orient it: for tables on which the test goes the other way (a temperature range below the "
                                  f"pressure range, say) rows and columns are exchanged - extract returns a pressure column for a requested temperature, the geotherm spline is fitted with T and P interchanged",
                      key=f"{modname}.load.orientation")
        t = next((tt for dec, tt in paths if not any(v_ for _, v_ in dec)), paths[0][1])
        a, k = cap.get("read", ((), {}))
        ok = isinstance(t, Table) and t.parsed == {"index": True, "columns": True} and a and a[0] == "FILE0" and k.get("index_col") == 0 \
            and (whitespace_sep(k.get("sep")) or k.get("delim_whitespace") is True)
        ctx.check(ok, f"{modname.split('.')[-1]}.load_data reads the first match with row labels in column 0 and float labels on both axes", w,
                  expected="read_table(glob(pattern)[0], sep=whitespace, index_col=0); columns/index -> float", found=f"kwargs {list(k)}, parsed {getattr(t, 'parsed', None)}",
                  explanation="the output table is not read with its first column as row labels, or labels stay strings (nearest-value search breaks)", key=f"{modname}.load")
        pat = cap.get("pattern")
        if not isinstance(pat, str):
            raise AnalysisError("load_data: glob pattern is not a constant string for a constant variable name")
        bad = []
        n = 0
        for r in rules:
            fn = r["fname_pattern"]
            for ij in (["11", "46"] if "{ij}" in fn else [""]):
                name = fn.format(base="tp", ij=ij)
                var = name.split("_tp_")[0]
                n += 1
                # the loader is folded again with this very name (string methods applied to the name act on its characters: rstrip("_tp") eats the p of v_p)
                cap.pop("pattern", None)
                ev.branch_oracle = lambda v_: False         # which file is looked up does not depend on the table's values; orientation is judged above
                try:
                    ev.call_def(f, model.mods[modname], ref, [var], {})
                except RaisedV as e:
                    bad.append(f"{var}: load_data raises {e.exc_name}")
                    continue
                mine = cap.get("pattern")
                if not isinstance(mine, str):
                    raise AnalysisError(f"load_data: glob pattern is not a constant string for the variable name {var!r}")
                others = [o["fname_pattern"].format(base=b, ij=i2) for o in rules for b in ("tp", "tv") for i2 in (["11", "46"] if "{ij}" in o["fname_pattern"] else [""])]
                hits = [o for o in set(others) if fnmatch.fnmatch(o, mine)]
                if hits != [name]:
                    bad.append(f"{var}: pattern {mine} matches {sorted(hits)}")
        ctx.check(not bad, f"{modname.split('.')[-1]}: pattern '<var>_tp_*' selects exactly the writer's pressure-base file ({n} variables)", w,
                  expected="one match: the tp file of that variable", found="; ".join(bad[:3]) or "unique match for every variable",
                  explanation="the file pattern used to load a variable matches no file, another variable's file, or the volume-base file", key=f"{modname}.pattern")


def dtype_from_geotherm(f):
    """working arrays that take their element type from a column of the geotherm file (read by pandas: whole numbers give int64):
    `*_like(<geotherm column>)` without a floating dtype, dtype=<column>.dtype, astype(<column>.dtype)"""
    tainted = set()
    for st in ast.walk(f):
        if isinstance(st, ast.Assign) and isinstance(st.value, ast.Call) and (dotted_name(st.value.func) or "").split(".")[-1] in ("read_table", "read_csv", "read_fwf"):
            tainted |= {t.id for t in st.targets if isinstance(t, ast.Name)}

    def dep(e):
        return any(isinstance(x, ast.Name) and x.id in tainted for x in ast.walk(e))
    changed = True
    while changed:
        changed = False
        for st in ast.walk(f):
            if isinstance(st, ast.Assign) and dep(st.value) and not (isinstance(st.value, ast.Call) and any(kw.arg == "dtype" and "float" in src(kw.value) for kw in st.value.keywords)):
                # arithmetic with floats (the spline's output) is not a column of the file any more: only plain views/copies carry the dtype
                v = st.value
                fname = (v.func.attr if isinstance(v.func, ast.Attribute) else (dotted_name(v.func) or "")) if isinstance(v, ast.Call) else ""
                carries = isinstance(v, (ast.Name, ast.Subscript, ast.Attribute)) or fname.split(".")[-1] in ("to_numpy", "copy", "array", "asarray", "ravel", "squeeze", "values", "reshape")
                if not carries:
                    continue
                for t in st.targets:
                    if isinstance(t, ast.Name) and t.id not in tainted:
                        tainted.add(t.id)
                        changed = True
    bad = []
    for c in ast.walk(f):
        if not isinstance(c, ast.Call):
            continue
        last = (dotted_name(c.func) or "").split(".")[-1]
        floaty = any(kw.arg == "dtype" and "float" in src(kw.value) for kw in c.keywords)
        if last in ("zeros_like", "empty_like", "ones_like", "full_like") and c.args and dep(c.args[0]) and not floaty:
            bad.append(src(c)[:80])
        for kw in c.keywords:
            if kw.arg == "dtype" and isinstance(kw.value, ast.Attribute) and kw.value.attr == "dtype" and dep(kw.value.value):
                bad.append(src(c)[:80])
        if last == "astype" and c.args and isinstance(c.args[0], ast.Attribute) and c.args[0].attr == "dtype" and dep(c.args[0].value):
            bad.append(src(c)[:80])
    return bad


def scaled_axis(x):
    """(role, scale) when x = scale * LABELS_role with a scale that mentions the labels only inside MAX(...) / MIN(...); else (None, None)"""
    if not is_sym(x):
        return None, None
    x = sp.sympify(x)
    for role in ("T", "P"):
        L = labels(role)
        if L not in x.free_symbols:
            continue
        ratio = sp.cancel(x / L)
        probe = ratio.replace(lambda t: getattr(t.func, "__name__", "") in ("MAX", "MIN"), lambda t: sp.Dummy("ext", positive=True))
        if L not in probe.free_symbols:
            return role, ratio
    return None, None


def covering_slice(sl, role):
    """the slice of the axis `role` contains every node from the one at or below the geotherm's smallest value to the one at or above its largest"""
    from ..sym import SliceV
    S_R, S_L, MINF, MAXF, LENF = (sp.Function(nm) for nm in ("SEARCHSORTED_right", "SEARCHSORTED_left", "MIN", "MAX", "LEN"))
    L, V = labels(role), sp.Symbol("GEO_" + role)
    if not isinstance(sl, SliceV) or sl.step is not None:
        return False
    from sympy.core.function import AppliedUndef
    # undefined functions are compared by name (the same atom is created with and without assumptions in different modules)
    plain = lambda e: sp.sympify(e).replace(lambda x_: isinstance(x_, AppliedUndef), lambda x_: sp.Function(x_.func.__name__)(*x_.args))
    sl = SliceV(None if sl.lo is None else plain(sl.lo), None if sl.hi is None else plain(sl.hi), None)
    if sl.lo is not None and sp.sympify(sl.lo) != 0:
        lo = sp.sympify(sl.lo)
        inner = [a for a in lo.args if a != 0] if isinstance(lo, sp.Max) and 0 in lo.args and len(lo.args) == 2 else [lo]
        d = sp.expand(inner[0] - S_R(L, MINF(V)))
        if not (d.is_Integer and d <= -1):           # at or below the node at or below the smallest value
            return False
    if sl.hi is not None:
        hi = sp.sympify(sl.hi)
        parts = list(hi.args) if isinstance(hi, sp.Min) else [hi]
        cover = [p_ for p_ in parts if sp.expand(p_ - S_L(L, MAXF(V))).is_Integer]
        clip = [p_ for p_ in parts if sp.expand(p_ - LENF(L)).is_Integer]
        # exclusive end beyond the node at or above the largest value; clipped to the length, not below it
        if not (len(cover) == 1 and len(cover) + len(clip) == len(parts) and sp.expand(cover[0] - S_L(L, MAXF(V))) >= 1 and all(sp.expand(c_ - LENF(L)) >= 0 for c_ in clip)):
            return False
    return True


def r_geotherm(ctx, model):
    ref = f"{GEO}:main"
    f = model.func(ref)
    w = model.where(ref, f)
    inherited = dtype_from_geotherm(f)
    ctx.check(not inherited, "no result array inherits its element type from a column of the geotherm file", w, expected="floating-point result arrays",
              found="; ".join(inherited) or "none", explanation="interpolated values are stored in an array whose element type comes from a geotherm column: a geotherm "
              "written in whole kelvins / gigapascals is read as integers and every interpolated value is truncated", key="geotherm.dtype")
    # option defaults from the click decorators
    defaults = {}
    for d in f.decorator_list:
        if isinstance(d, ast.Call) and (dotted_name(d.func) or "").endswith("option"):
            names = [a.value for a in d.args if isinstance(a, ast.Constant) and isinstance(a.value, str) and a.value.startswith("--")]
            kw = {k.arg: k.value for k in d.keywords}
            if names and "default" in kw and isinstance(kw["default"], ast.Constant):
                defaults[names[0][2:].replace("-", "_")] = kw["default"].value
    cap = {"splines": [], "evals": []}

    class Geo:
        def __init__(self):
            self.cols = {"P": sp.Symbol("GEO_P"), "T": sp.Symbol("GEO_T"), "D": sp.Symbol("GEO_D")}
            self.order = ["P", "D", "T"]

        def sym_subscript(self, ev, idx, n, mod):
            if idx not in self.cols:
                raise RaisedV("KeyError")
            return self.cols[idx]

        def sym_store(self, ev, idx, v, t, mod):
            if idx in ("P", "T", "D"):
                cap["overwrote"] = idx
            self.cols[idx] = v
            self.order.append(idx)

        def sym_getattr(self, ev, name, node, mod):
            if name == "to_string":
                return BoundLib("geo.to_string", self)
            if name == "columns":
                return Tup(list(self.order), "list")
            if name in ("copy",):
                return BoundLib("identity", self)
            if name == "assign":
                return BoundLib("geo.assign", self)
            raise ev.err(f"attribute {name} of the geotherm table", node, mod)

        def sym_contains(self, ev, item, n, mod):
            return item in self.cols

    class Spl:
        def __init__(self, a, k):
            b = dict(zip(["x", "y", "z"], a))
            for kk in ("x", "y", "z"):
                if kk in k:
                    b[kk] = k[kk]
            kw_accept(k, "kx", lambda v: True)
            kw_accept(k, "ky", lambda v: True)
            kw_accept(k, "s", lambda v: is_sym(v) and v == 0)
            self.b = b

        def sym_call(self, ev, args, kwargs, n, mod):
            cap["evals"].append((self, list(args), dict(kwargs)))
            return sp.Symbol(f"SPLVAL{len(cap['evals'])}")

        def sym_getattr(self, ev, name, node, mod):
            if name == "ev":
                return BoundLib("spline.ev", self)
            raise ev.err(f"spline attribute {name}", node, mod)

    geo = Geo()

    def geo_assign(ev, a, k):
        """DataFrame.assign(**columns): a NEW frame; the columns are added in keyword order, a callable is called with the frame as built so far"""
        src_ = a[0]
        new = Geo()
        new.cols, new.order = dict(src_.cols), list(src_.order)
        for name_, val_ in (k.items() if not hasattr(k, "all") else dict(k).items()):
            if not isinstance(val_, (sp.Basic, int, float)) and not hasattr(val_, "sym_subscript"):
                val_ = ev.call(val_, [new], {})
            new.sym_store(ev, name_, val_, None, None)
        if hasattr(k, "all"):
            k.all()
        return new

    intr = table_intrinsics({})
    intr.update({
        f"{GEO}:load_data": lambda ev, a, k: Table(a[0], parsed={"index": True, "columns": True}),
        f"{EXTRACT}:load_data": lambda ev, a, k: Table(a[0], parsed={"index": True, "columns": True}),
        "pandas.read_table": lambda ev, a, k: cap.update(read=(a, {kk: k.get(kk) for kk in ("sep", "index_col", "header", "delim_whitespace")}))
                             or kw_accept(k, "engine", lambda v: True) or geo,
        "scipy.interpolate.RectBivariateSpline": lambda ev, a, k: Spl(a, k),
        "spline.ev": lambda ev, a, k: a[0].sym_call(ev, list(a[1:3]), {"grid": False} if not k.get("dx") and not k.get("dy") else {"grid": None}, None, None),
        "geo.to_string": lambda ev, a, k: cap.update(printed=(a[0], k.all())) or "TEXT", "geo.assign": geo_assign,
        "builtins.print": lambda ev, a, k: None, "click.echo": lambda ev, a, k: None, "sys.stdout.write": lambda ev, a, k: None,
    })
    intr["pandas.read_csv"] = intr["pandas.read_table"]
    ev = Ev(model, {}, intr, ctx=ctx)
    kwargs = {"variables": "c11s,vp", "hide_header": False, "geotherm": "geo.txt", "t_col": defaults.get("t_col"), "p_col": defaults.get("p_col")}
    ev.call_def(f, model.mods[GEO], ref, [], kwargs)
    bad = []
    if len(cap["evals"]) != 2:
        bad.append(f"{len(cap['evals'])} spline evaluations for 2 variables")
    for (spl, args, kw), var in zip(cap["evals"], ("c11s", "vp")):
        b = dict(spl.b)
        # an axis divided by a number that depends on the axis only through its extremes (x / ptp(x), x / x.max()) is the same axis in other units: accepted when the
        # geotherm coordinate handed to the spline is divided by the very same number
        scales = {}
        for nm, pos in (("x", 0), ("y", 1)):
            role_, scale_ = scaled_axis(b.get(nm))
            if role_ is not None and scale_ != 1 and len(args) == 2:
                g_ = sp.Symbol("GEO_" + role_)
                a_ = sp.sympify(as_sym(args[pos])) if is_sym(args[pos]) else None
                if a_ is not None and sp.simplify(a_ / g_ - scale_) == 0:
                    b[nm] = labels(role_)
                    args = list(args)
                    args[pos] = g_
                else:
                    scales[nm] = (role_, scale_, a_)
        if scales:
            bad.append("; ".join(f"spline axis {nm} is the {r_} labels times {short(sc_, 60)} but the geotherm coordinate handed to it is {short(a_, 60)}" for nm, (r_, sc_, a_) in scales.items()))
        rx, ry = (role_of(b.get("x")) if is_sym(b.get("x")) else getattr(b.get("x"), "role", None)), \
                 (role_of(b.get("y")) if is_sym(b.get("y")) else getattr(b.get("y"), "role", None))
        z = b.get("z")
        if isinstance(z, Table):
            z = z.values()
        win = getattr(z, "window", None) if isinstance(z, Grid2) else None
        if isinstance(z, Grid2) and (z.r in PART_ROLES or z.c in PART_ROLES):
            # the spline is fitted on a part of the table: accepted when, along each axis, the part provably contains the hull of the geotherm's
            # values (from the node at or below the smallest up to the node at or above the largest, clipped to the table's length) and the label
            # vectors handed to the spline are the same parts of the axes
            okp = True
            base = []
            for role, lab in ((z.r, b.get("x")), (z.c, b.get("y"))):
                if role in PART_ROLES:
                    br, sl = PART_ROLES[role]
                    okp = okp and br in ("T", "P") and covering_slice(sl, br) and is_sym(lab) and sp.sympify(lab) == labels(role)
                    base.append(br)
                else:
                    okp = okp and is_sym(lab) and sp.sympify(lab) == labels(role)
                    base.append(role)
            if okp:
                rx, ry = base
                z = Grid2(z.var, base[0], base[1])
            else:
                win = "part"
        if {rx, ry} != {"T", "P"} or not isinstance(z, Grid2) or (z.r, z.c) != (rx, ry) or z.var != var or win is not None:
            bad.append(f"spline axes x={b.get('x')} y={b.get('y')} z={z!r}: rows of z must run along x and the fitted block must contain every node around the geotherm (variable {var})")
        geo_role = {sp.Symbol("GEO_T"): "T", sp.Symbol("GEO_P"): "P"}
        got = tuple(geo_role.get(a) for a in args[:2]) if len(args) == 2 else None
        if got != (rx, ry):
            bad.append(f"spline over ({rx}, {ry}) evaluated at geotherm columns {got}")
        if kw.get("grid") is not False:
            bad.append("grid=False missing: evaluates on the outer product instead of along the path")
    final = cap["printed"][0] if isinstance(cap.get("printed", (None,))[0], Geo) else geo        # the frame that is printed (assign() and copy() make new ones)
    for var, nm in (("c11s", "SPLVAL1"), ("vp", "SPLVAL2")):
        if final.cols.get(var) != sp.Symbol(nm):
            bad.append(f"column {var} is not the spline value of {var}")
    ctx.check(not bad, "extract-geotherm: spline(x = T rows, y = P columns, z = values) evaluated at (geotherm T, geotherm P) pointwise", w,
              expected="RectBivariateSpline(index, columns, values)(table[T column], table[P column], grid=False) (or .ev) stored under the variable's name", found="; ".join(bad) or "as required",
              explanation="axis roles of the bivariate spline and of its evaluation point disagree (temperature and pressure are swapped, or the "
                          "spline is evaluated on a grid instead of along the geotherm), or a variable's column holds another variable's values", key="geotherm.axes")
    ra, rk = cap.get("read", ((), {}))
    ok_read = bool(ra) and ra[0] == "geo.txt" and (whitespace_sep(rk.get("sep")) or rk.get("delim_whitespace") is True) \
        and rk.get("index_col") in (None, False) and (rk.get("header") in (None, "infer") or rk.get("header") == 0)
    ctx.check(ok_read, "the geotherm file is read as a whitespace table with a header line and no index column", w,
              expected="read_table(geotherm, sep=whitespace, index_col=None, header=0)", found=str(rk),
              explanation="the geotherm's P/D/T columns are not all read as data columns named by the header line (a column is taken as "
                          "the index, the header is treated as data, or the separator is not whitespace)", key="geotherm.read")
    printed = cap.get("printed")
    passed = all(final.cols.get(c_) == sp.Symbol("GEO_" + c_) for c_ in ("P", "D", "T"))
    ok = printed is not None and isinstance(printed[0], Geo) and "overwrote" not in cap and passed and final.order == ["P", "D", "T", "c11s", "vp"] \
        and printed[1].get("index") is False
    ctx.check(ok, "geotherm columns pass through unchanged; one new column per variable; printed without the index", w,
              expected="P, D, T, c11s, vp", found=f"{final.order}; overwrote {cap.get('overwrote')}",
              explanation="the geotherm's own columns are modified or results are not appended as new columns", key="geotherm.passthrough")


RULES = [
    ("R19.1", "extract: transpose iff -P; arg-min over the frame's index; row of the same axis; labels of the other axis", r_extract),
    ("R19.3", "load_data: pattern agreement with the writer rules, label column and float labels", r_load),
    ("R19.2,4", "extract-geotherm: spline axis roles vs evaluation arguments, grid=False, pass-through of geotherm columns", r_geotherm),
]
